"""Harness: Context.get_iter with the real ThreadedMailboxProcessor (or the single-thread processor)
under the controlled scheduler, with fault injection and a scripted consumer."""
import os
import numpy as np
import strax
from vlib import graphs as g, ctxrun, vsched, explore

RUN = "0"


class Injected(Exception):
    pass


_orig_save_file = strax.save_file
_orig_load_file = strax.load_file
IO_FAULT = {"save": None, "load": None}  # (data type, chunk index) -> raise Injected


def _matches(fn, flt):
    if not flt or not isinstance(fn, str):
        return False
    node, idx = flt
    b = os.path.basename(fn)
    if b.endswith("_temp"):
        b = b[: -len("_temp")]
    return b.startswith(node + "-") and b.endswith(f"-{idx:06d}")


def _save_file(f, data, compressor="zstd"):
    if _matches(f, IO_FAULT["save"]):
        IO_FAULT["fired"] = True
        raise Injected("save:%s@%d" % IO_FAULT["save"])
    return _orig_save_file(f, data, compressor=compressor)


def _load_file(f, compressor, dtype):
    if _matches(f, IO_FAULT["load"]):
        IO_FAULT["fired"] = True
        raise Injected("load:%s@%d" % IO_FAULT["load"])
    return _orig_load_file(f, compressor, dtype)


def install():
    vsched.install()
    g.quiet()
    strax.save_file = _save_file
    strax.load_file = _load_file
    import strax.storage.files as F

    F.print = lambda *a, **k: None


class PipeCase:
    """Description of one pipeline configuration (plain data, JSON-able through key())."""

    def __init__(self, gname, bounds, mode="lazy", max_messages=4, fault=None, consumer=("all",), stored=(), save=None, processor="threaded_mailbox", save_when=None, plugin_cap=None):
        self.plugin_cap = tuple(plugin_cap) if plugin_cap else None  # (node, k): that plugin declares its own max_messages = k
        self.gname, self.bounds, self.mode, self.max_messages = gname, tuple(bounds), mode, max_messages
        self.fault = tuple(fault) if fault else None
        self.consumer, self.stored = tuple(consumer), tuple(stored)
        self.save = tuple(save) if save is not None else None
        self.processor = processor
        self.save_when = save_when  # "explicit" | None (ALWAYS)
        self.spec = g.catalogue()[gname]
        n = len(bounds) - 1
        self.iv = tuple((bounds[i], bounds[i] + 1) for i in range(n) if bounds[i + 1] > bounds[i])  # one row per chunk

    def key(self):
        return dict(graph=self.gname, bounds=self.bounds, mode=self.mode, max_messages=self.max_messages, fault=self.fault, consumer=self.consumer,
                    stored=self.stored, save=self.save, processor=self.processor, save_when=self.save_when, plugin_cap=self.plugin_cap)

    @staticmethod
    def from_key(k):
        tup = lambda x: tuple(tup(y) for y in x) if isinstance(x, list) else x
        return PipeCase(k["graph"], tup(k["bounds"]), k["mode"], k["max_messages"], tup(k["fault"]), tup(k["consumer"]), tup(k["stored"]), tup(k["save"]), k["processor"], k.get("save_when"), tup(k.get("plugin_cap")))

    def intended_capacity(self, data_type):
        """capacity a mailbox is meant to have: the plugin's own max_messages if it declares one, else the context option"""
        if self.plugin_cap:
            node, k = self.plugin_cap
            for n in self.spec:
                if n["name"] == node and data_type in g.provides_of(n):
                    return k
        return self.max_messages

    def sources(self):
        return {n["name"]: dict(iv=self.iv, bounds=self.bounds) for n in self.spec if n["kind"] == "source"}


class PipeHarness(explore.Harness):
    """One execution: build the context (+ pre-stored data), run the scripted consumer over get_iter.
    consumer: ("all",) | ("close", k) take k chunks then close() | ("park", k) take k chunks then block forever"""

    def __init__(self, pc):
        self.pc = pc
        self.obs = dict(chunks=0, exc=None, rows=None, live_at_return=None, closed_exc=None, source_calls=None, parked=False, max_held={})
        self.world = None
        self.mailboxes = {}
        self.quiescence_ok = pc.consumer[0] == "park"

    def invariant(self, s):
        for name, mb in self.mailboxes.items():
            n = len(mb._mailbox)
            if n > self.obs["max_held"].get(name, 0):
                self.obs["max_held"][name] = n
            if not mb.lazy and n > mb.max_messages:
                return f"mailbox {name} holds {n} > capacity {mb.max_messages}"
            if not mb.lazy and n > self.pc.intended_capacity(name):
                return f"mailbox {name} holds {n} > capacity {self.pc.intended_capacity(name)} (the context's max_messages / the plugin's own max_messages); the mailbox was configured with {mb.max_messages}"
        return None

    def build(self):
        pc = self.pc
        d = ctxrun.fresh_dir("pipe")
        world = g.World(pc.spec, pc.sources())
        self.world = world
        attrs = {}
        for n in pc.spec:
            a = {}
            if pc.save_when == "explicit":
                from immutabledict import immutabledict

                a["save_when"] = strax.SaveWhen.EXPLICIT if n["kind"] != "multi" else immutabledict({p: strax.SaveWhen.EXPLICIT for p in g.provides_of(n)})
            if pc.mode == "workers" and n["kind"] in ("map", "filter", "merge2"):
                a["parallel"] = "thread"
            if pc.plugin_cap and pc.plugin_cap[0] == n["name"]:
                a["max_messages"] = pc.plugin_cap[1]
            a["rechunk_on_save"] = False  # keep the chunk numbering of the saved files equal to the produced chunks
            attrs[n["name"]] = a
        classes = g.make_classes(pc.spec, world, attrs)
        opts = dict(g.CTX_DEFAULTS)
        opts.update(allow_lazy=(pc.mode == "lazy"), max_messages=pc.max_messages)

        def ctx():
            return strax.Context(storage=[strax.DataDirectory(d)], register=classes, **opts)

        if pc.stored:
            st0 = ctx()
            for t in pc.stored:
                st0.make(RUN, t, save=(t,), processor="single_thread", progress_bar=False)
            world.calls.clear()
            world.source_calls.clear()
            world.log.clear()
        self.ctx = ctx
        return ctx()

    def main(self):
        pc = self.pc
        IO_FAULT["save"] = IO_FAULT["load"] = None
        IO_FAULT["fired"] = False
        st = self.build()
        if pc.fault is not None:
            stage, node, idx = pc.fault
            if stage == "plugin":
                def flt(n, i, node=node, idx=idx):
                    if n == node and i == idx:
                        raise Injected(f"{node}@{idx}")

                self.world.fault = flt
            elif stage == "saver":
                IO_FAULT["save"] = (node, idx)
            elif stage == "loader":
                IO_FAULT["load"] = (node, idx)
        target = g.final_target(pc.spec)
        kw = dict(processor=pc.processor, progress_bar=False, max_workers=2 if pc.mode == "workers" else None)
        if pc.save is not None:
            kw["save"] = pc.save
        s = vsched.S()
        me = s.me()
        it = None
        try:
            it = st.get_iter(RUN, target, **kw)
            rows = []
            mode = pc.consumer[0]
            k = pc.consumer[1] if len(pc.consumer) > 1 else None
            n = 0
            completed = False
            if not (mode in ("close", "park") and k == 0):
                for c in it:
                    if not self.mailboxes:
                        self._find_mailboxes(it)
                    n += 1
                    self.obs["chunks"] = n
                    rows.append(c.data)
                    if mode in ("close", "park") and n >= k:
                        break
                else:
                    completed = True
                    self.obs["rows"] = np.concatenate(rows) if rows else None
            if mode == "park" and not completed:
                self.obs["parked"] = True
                s.point(lambda: False, waiting_on=("parked", None))
            if mode == "close" and not completed:
                try:
                    it.close()
                except vsched.Abort:
                    raise
                except BaseException as e:  # noqa
                    self.obs["closed_exc"] = e
        except vsched.Abort:
            # torn down by the explorer (deadlock / quiescence / cut): finish the generator now so
            # that it is not closed later by the garbage collector outside any scheduler
            try:
                if it is not None:
                    it.close()
            except BaseException:  # noqa
                pass
            raise
        except BaseException as e:  # noqa
            self.obs["exc"] = e
        finally:
            IO_FAULT["save"] = IO_FAULT["load"] = None
            self.obs["io_fault_fired"] = IO_FAULT.get("fired", False)
        self.obs["live_at_return"] = [t.name for t in s.threads if t.started and not t.done and t is not me]

    def storage_verdict(self):
        """C04's clause for exceptions in plugins / savers / loaders and for an abandoned iterator: once the call has
        returned, a FRESH context must find every data type it reports as stored complete and equal to the whole-run
        reference (pre-stored inputs included); anything else must be reported unavailable.  Sequential, run after
        the execution (all pipeline threads have terminated)."""
        pc = self.pc
        if self.world is not None:
            self.world.fault = None
        IO_FAULT["save"] = IO_FAULT["load"] = None
        ref = g.reference(pc.spec, pc.sources())
        stored_types = []
        for t in ref:
            try:
                st = self.ctx()
                stored = st.is_stored(RUN, t)
            except Exception as e:  # noqa
                return f"STORAGE is_stored({t}) raised {type(e).__name__}: {str(e)[:120]}"
            if not stored:
                continue
            stored_types.append(t)
            try:
                st.set_context_config(dict(forbid_creation_of=tuple(ref)))
                got = st.get_array(RUN, t, processor="single_thread", progress_bar=False)
            except Exception as e:  # noqa
                return f"STORAGE stored-but-unloadable: {t} is reported stored but loading raised {type(e).__name__}: {str(e)[:120]}"
            if not ctxrun.rows_equal(got, ref[t]):
                return f"STORAGE stored-but-wrong: {t} is reported stored but holds {len(got)} rows, the correct result has {len(ref[t])}"
        self.obs["stored_after"] = tuple(stored_types)
        return None

    def _find_mailboxes(self, it):
        # walk get_iter -> processor.iter generator frames to reach the processor's mailboxes
        try:
            gen = it.gi_frame.f_locals.get("generator")
            proc = gen.gi_frame.f_locals.get("self")
            self.mailboxes = dict(getattr(proc, "mailboxes", {}))
        except Exception:
            self.mailboxes = {}


# ---------------------------------------------------------------- monitors (observation only)
LAST_PROC = {"p": None}
GATE_VIOLATIONS = []
_orig_tmp_init = strax.ThreadedMailboxProcessor.__init__
_orig_can_fetch = strax.Mailbox._can_fetch


def _tmp_init(self, *a, **k):
    _orig_tmp_init(self, *a, **k)
    LAST_PROC["p"] = self


def _can_fetch(self):
    """lazy fetch gate monitor: whenever the gate opens for the SENDER (its decision to advance the
    source), some driving subscriber must be waiting for a message number that is not in the mailbox"""
    import sys

    r = _orig_can_fetch(self)
    if r and not self.killed:
        caller = sys._getframe(1).f_code.co_name
        if caller in ("_send_from", "divide_outputs", "wait_for"):
            present = {n for n, _ in self._mailbox}
            strict = any(cd and w is not None and w not in present for cd, w in zip(self._subscriber_can_drive, self._subscriber_waiting_for))
            if not strict:
                GATE_VIOLATIONS.append(f"{self.name}: fetch gate opened with waiting_for={self._subscriber_waiting_for} can_drive={self._subscriber_can_drive} present={sorted(present)}")
    return r


def install_monitors():
    strax.ThreadedMailboxProcessor.__init__ = _tmp_init
    strax.Mailbox._can_fetch = _can_fetch
