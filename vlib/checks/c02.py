"""C02 - stored data is reused only under an identical lineage (no stale reads).
Breadth-first search over operation histories on the real Context API with canonical-state dedup."""
import itertools, json, os, subprocess, sys, warnings
import numpy as np
import strax
from vlib.runner import Result
from vlib import graphs as g, ctxrun, vsched

ID = "C02"
LEVEL = "model_checking"
RULE = (
    "explicit-state BFS over histories of {set_config(tracked shared option), set_config(plugin-private tracked option), "
    "set_config(untracked option), register(version bump), register(same-named class with another default), register(another "
    "class for the same data type), register(child plugin), new_context, make(t), get_array(t), get_array(t) from a second "
    "context built from scratch on the same directory, enable fuzzy_for / fuzzy_for_options} on a 3-plugin chain src -> mid -> "
    "top with a shared tracked option; a state is the history that reaches it (fresh context + fresh directory, operations "
    "replayed on the real API), deduplicated by canonical state = (registered variants, config, fuzzy settings, directories on "
    "disk with lineage hash, plugin-cache signature). oracle after every operation: key_for == key of a brand-new context with "
    "the same settings; get_array == the rows defined by the current variants/options (computed by formula and cross-checked "
    "against a brand-new context on an empty directory); key-change relation between consecutive states; under fuzzy matching "
    "the result is stored data whose lineage matches modulo the fuzzy parts (or the fresh computation) and nothing is written; "
    "keys identical across 3 hash seeds and permuted option insertion orders (subprocesses)."
)
ASSUMPTIONS = [
    "one 3-plugin chain; option values over int / str / tuple / nested dict; history depth bounded",
    "operations are replayed from scratch for every explored history (no snapshotting of Context objects)",
]
BOUNDS = {"quick": "histories up to depth 4 (prefix-partitioned BFS, canonical-state dedup per partition)", "thorough": "depth 5"}
RUN = "0"
IV = ((0, 1), (1, 2), (3, 4))


# ------------------------------------------------------------------ plugin variants
def rows_src():
    r = np.zeros(len(IV), g.dt_for("src"))
    for i, (a, b) in enumerate(IV):
        r[i] = (a * 600, b * 600, i, i + 1)
    return r


class Src(strax.Plugin):
    provides = "src"
    depends_on = ()
    dtype = g.dt_for("src")
    data_kind = "kk"
    __version__ = "0.0.1"
    rechunk_on_save = False

    def source_finished(self):
        return True

    def is_ready(self, chunk_i):
        return chunk_i < 1

    def compute(self, chunk_i):
        return self.chunk(start=0, end=4 * 600, data=rows_src())


def opt_value(v):
    """numeric weight of an option value (values may be int, str, tuple, dict)"""
    return int.from_bytes(repr(v).encode(), "big") % 97 if not isinstance(v, int) else v


def mk_mid(version="0.0.1", mid_default=3, code=0, name="Mid", child=False):
    def compute(self, kk):
        c = self.config
        return g._out(kk, "mid", kk["v_src"] * 1000 + opt_value(c["shared_opt"]) * 100 + opt_value(c["mid_opt"]) * 10 + code)

    opts = [strax.Option("shared_opt", default=2, help="shared"), strax.Option("mid_opt", default=mid_default, help="private"), strax.Option("untracked_opt", default=0, track=False, help="untracked")]
    cls = type(name, (strax.Plugin,), dict(provides="mid", depends_on=("src",), dtype=g.dt_for("mid"), data_kind="kk", __version__=version, compute=compute, rechunk_on_save=False))
    return strax.takes_config(*opts)(cls)


def mk_top(version="0.0.1", code=0):
    def compute(self, kk):
        c = self.config
        return g._out(kk, "top", kk["v_mid"] * 7 + opt_value(c["shared_opt"]) + opt_value(c["top_opt"]) * 3 + code)

    opts = [strax.Option("shared_opt", default=2, help="shared"), strax.Option("top_opt", default=1, help="private")]
    cls = type("Top", (strax.Plugin,), dict(provides="top", depends_on=("mid",), dtype=g.dt_for("top"), data_kind="kk", __version__=version, compute=compute, rechunk_on_save=False))
    return strax.takes_config(*opts)(cls)


MID = {
    "base": dict(version="0.0.1", mid_default=3, code=0, name="Mid"),
    "v2": dict(version="0.0.2", mid_default=3, code=1, name="Mid"),
    "newdefault": dict(version="0.0.1", mid_default=5, code=0, name="Mid"),
    "otherclass": dict(version="0.0.1", mid_default=3, code=2, name="MidOther"),
}
TOP = {"base": dict(version="0.0.1", code=0), "v2": dict(version="0.0.2", code=1)}
_CLS = {}


def cls_mid(v):
    if ("mid", v) not in _CLS:
        _CLS[("mid", v)] = mk_mid(**MID[v])
    return _CLS[("mid", v)]


def cls_top(v):
    if ("top", v) not in _CLS:
        _CLS[("top", v)] = mk_top(**TOP[v])
    return _CLS[("top", v)]


def compute_mid(model, s):
    cfg = model["config"]
    mv = MID[model["mid"]]
    shared = opt_value(cfg.get("shared_opt", 2))
    return g._out(s, "mid", s["v_src"] * 1000 + shared * 100 + opt_value(cfg.get("mid_opt", mv["mid_default"])) * 10 + mv["code"])


def compute_top(model, mid):
    cfg = model["config"]
    shared = opt_value(cfg.get("shared_opt", 2))
    return g._out(mid, "top", mid["v_mid"] * 7 + shared + opt_value(cfg.get("top_opt", 1)) * 3 + TOP[model["top"]]["code"])


def expected_rows(model, t):
    s = rows_src()
    if t == "src":
        return s
    mid = compute_mid(model, s)
    return mid if t == "mid" else compute_top(model, mid)


def acceptable_rows(model, t, d):
    """every result a fuzzy request may legitimately return: stored data whose lineage matches modulo the fuzzy
    parts, or the current plugin applied to an acceptable input (recursively)"""
    want_lin = fresh_context(model, d, empty=True).lineage(RUN, t)
    out = list(stored_matching(d, t, want_lin, model["fuzzy_for"], model["fuzzy_opt"]))
    if t == "src":
        out.append(rows_src())
    elif t == "mid":
        out += [compute_mid(model, x) for x in acceptable_rows(model, "src", d)]
    else:
        out += [compute_top(model, x) for x in acceptable_rows(model, "mid", d)]
    return out


# ------------------------------------------------------------------ operations
OPS = [
    ("set", "shared_opt", 7),
    ("set", "shared_opt", (1, "a")),
    ("set", "mid_opt", 4),
    ("set", "top_opt", {"k": [1, 2]}),
    ("set", "untracked_opt", 9),
    ("reg_mid", "v2"),
    ("reg_mid", "newdefault"),
    ("reg_mid", "otherclass"),
    ("reg_top", "v2"),
    ("new_context",),
    ("make", "mid"),
    ("make", "top"),
    ("get", "mid"),
    ("get", "top"),
    ("get2", "top"),
    ("fuzzy_for", "mid"),
    ("fuzzy_opt", "shared_opt"),
]
TRACKED_BY = {"shared_opt": ("mid", "top"), "mid_opt": ("mid",), "top_opt": ("top",), "untracked_opt": ()}
DESC = {"src": ("src", "mid", "top"), "mid": ("mid", "top"), "top": ("top",)}


def fresh_context(model, d, empty=False):
    st = strax.Context(storage=[strax.DataDirectory(d)] if not empty else [], register=[Src, cls_mid(model["mid"]), cls_top(model["top"])], config=dict(model["config"]),
                       **dict(g.CTX_DEFAULTS, fuzzy_for=tuple(model["fuzzy_for"]), fuzzy_for_options=tuple(model["fuzzy_opt"])))
    return st


def keys_of(st):
    return {t: str(st.key_for(RUN, t)) for t in ("src", "mid", "top")}


def cache_signature(st):
    c = st._fixed_plugin_cache
    if not c:
        return ()
    out = []
    for h, plugins in c.items():
        out.append(tuple(sorted((t, strax.deterministic_hash(p.lineage)) for t, p in plugins.items())))
    return tuple(sorted(out))


def listing(d):
    return tuple(sorted(x for x in os.listdir(d) if not x.endswith(".json")))


def stored_matching(d, t, want_lineage, fuzzy_for, fuzzy_opt):
    """rows of every stored directory of type t whose lineage matches modulo the fuzzy parts (read straight from disk)"""
    out = []
    flt = lambda lin: {dt_: (v[0], v[1], {o: b for o, b in v[2].items() if o not in fuzzy_opt}) for dt_, v in lin.items() if dt_ not in fuzzy_for}
    for name in listing(d):
        parts = name.split("-")
        if len(parts) != 3 or parts[1] != t or name.endswith("_temp"):
            continue
        md = json.load(open(os.path.join(d, name, f"{parts[1]}-{parts[2]}-metadata.json")))
        if "exception" in md or "writing_ended" not in md:
            continue
        lin = {k: tuple(v) for k, v in md["lineage"].items()}
        wl = json.loads(json.dumps(want_lineage))
        wl = {k: tuple(v) for k, v in wl.items()}
        if flt(lin) == flt(wl):
            out.append(strax.dry_load_files(os.path.join(d, name), disable=True))
    return out


class Replay:
    """a state = the history that reaches it"""

    def __init__(self, res):
        self.res = res

    def run(self, history, check_last_only=True):
        d = ctxrun.fresh_dir("c02")
        model = dict(mid="base", top="base", config={}, fuzzy_for=[], fuzzy_opt=[], _parent=None)
        st = fresh_context(model, d)
        ok = True
        for i, op in enumerate(history):
            last = i == len(history) - 1
            ok = self.step(st_box := [st], model, d, op, history[: i + 1], check=last or not check_last_only)
            st = st_box[0]
            if not ok:
                break
        canon = (model["mid"], model["top"], tuple(sorted((k, repr(v)) for k, v in model["config"].items())), tuple(model["fuzzy_for"]), tuple(model["fuzzy_opt"]), listing(d), cache_signature(st),
                 tuple(sorted(model["_parent"][1].items())) if model["_parent"] else None)
        return canon, ok

    def step(self, box, model, d, op, hist, check):
        st = box[0]
        res = self.res
        case = dict(history=hist)
        before_model = dict(model, config=dict(model["config"]))
        kind = op[0]
        with warnings.catch_warnings():
            warnings.simplefilter("ignore")
            try:
                if kind == "set":
                    st.set_config({op[1]: op[2]})
                    model["config"][op[1]] = op[2]
                elif kind == "reg_mid":
                    st.register(cls_mid(op[1]))
                    model["mid"] = op[1]
                elif kind == "reg_top":
                    st.register(cls_top(op[1]))
                    model["top"] = op[1]
                elif kind == "new_context":
                    # the parent stays alive and is never operated on again: whatever is done to the derived context,
                    # the parent's keys must stay what they are now (a context is not disturbed through its children)
                    model["_parent"] = (st, dict(keys_of(st)))
                    box[0] = st = st.new_context()
                elif kind == "fuzzy_for":
                    st.set_context_config({"fuzzy_for": (op[1],)})
                    model["fuzzy_for"] = [op[1]]
                elif kind == "fuzzy_opt":
                    st.set_context_config({"fuzzy_for_options": (op[1],)})
                    model["fuzzy_opt"] = [op[1]]
                elif kind in ("make", "get", "get2"):
                    t = op[1]
                    fuzzy = bool(model["fuzzy_for"] or model["fuzzy_opt"])
                    lst0 = listing(d)
                    ctx = st if kind != "get2" else fresh_context(model, d)
                    if kind == "make":
                        ctx.make(RUN, t, processor="single_thread", progress_bar=False)
                        got = None
                    else:
                        got = ctx.get_array(RUN, t, processor="single_thread", progress_bar=False)
                    if check and got is not None:
                        exp = expected_rows(model, t)
                        if not fuzzy:
                            if not ctxrun.rows_equal(got, exp):
                                res.violation(f"stale-read:{kind}:{self.classify(hist)}", f"get_array({t}) returned v={got['v_' + t].tolist()} but a brand-new context with the same settings computes {exp['v_' + t].tolist()}", case)
                                return False
                        else:
                            cands = acceptable_rows(model, t, d)
                            if not any(ctxrun.rows_equal(got, c) for c in cands):
                                res.violation("fuzzy:wrong-data", f"fuzzy get_array({t}) returned v={got['v_' + t].tolist()}, which is neither stored data matching modulo the fuzzy parts nor computed from such data; acceptable {[c['v_' + t].tolist() for c in cands][:4]}", case)
                                return False
                    if check and fuzzy and listing(d) != lst0:
                        res.violation("fuzzy:wrote", f"{kind}({t}) under fuzzy matching created {set(listing(d)) - set(lst0)}", case)
                        return False
            except Exception as e:
                res.violation(f"op-raised:{kind}:" + ctxrun.exc_fp(e), f"{op}: {type(e).__name__}: {e}"[:300], case)
                return False
            if not check:
                return True
            # ---- key oracles
            try:
                fresh = fresh_context(model, d, empty=True)
                fk = keys_of(fresh)
                ck = keys_of(box[0])
            except Exception as e:
                res.violation("key_for-raised:" + ctxrun.exc_fp(e), f"{type(e).__name__}: {e}"[:300], case)
                return False
            if ck != fk:
                bad = [t for t in fk if ck[t] != fk[t]]
                res.violation(f"stale-key:{self.classify(hist)}", f"after {op} key_for({bad}) = {[ck[t] for t in bad]} but a brand-new context with the same settings gives {[fk[t] for t in bad]}", case)
                return False
            par = model.get("_parent")
            if par is not None:
                try:
                    pk_now = dict(keys_of(par[0]))
                except Exception as e:
                    res.violation("parent-context:key_for-raised:" + ctxrun.exc_fp(e), f"{type(e).__name__}: {e}"[:300], case)
                    return False
                if pk_now != par[1]:
                    bad = [t for t in par[1] if pk_now.get(t) != par[1][t]]
                    res.violation(f"parent-context-disturbed:{kind}", f"after {op} on the context derived with new_context(), key_for({bad}) of the PARENT context changed from {[par[1][t] for t in bad]} to {[pk_now.get(t) for t in bad]}", case)
                    return False
            # key-change relation (on the fresh keys)
            pk = keys_of(fresh_context(before_model, d, empty=True))
            changed = {t for t in fk if fk[t] != pk[t]}
            exp_changed = set()
            if kind == "set" and repr(before_model["config"].get(op[1], "<unset>")) != repr(op[2]):
                default = {"shared_opt": 2, "top_opt": 1, "untracked_opt": 0, "mid_opt": MID[model["mid"]]["mid_default"]}[op[1]]
                oldv = before_model["config"].get(op[1], default)
                if repr(oldv) != repr(op[2]):
                    for p in TRACKED_BY[op[1]]:
                        exp_changed |= set(DESC[p])
            if kind == "reg_mid" and before_model["mid"] != op[1]:
                a, b = MID[before_model["mid"]], MID[op[1]]
                eff_a = before_model["config"].get("mid_opt", a["mid_default"])
                eff_b = model["config"].get("mid_opt", b["mid_default"])
                if (a["version"], a["name"]) != (b["version"], b["name"]) or repr(eff_a) != repr(eff_b):
                    exp_changed |= set(DESC["mid"])
            if kind == "reg_top" and before_model["top"] != op[1]:
                exp_changed |= set(DESC["top"])
            if changed != exp_changed:
                res.violation(f"key-relation:{kind}", f"{op} changed the keys of {sorted(changed)}, expected exactly {sorted(exp_changed)}", case)
                return False
        return True

    @staticmethod
    def classify(hist):
        """which kind of operation preceded the stale observation (for fingerprinting)"""
        kinds = [h[0] for h in hist]
        for k in ("reg_mid", "reg_top"):
            if k in kinds:
                return "after-register"
        if "set" in kinds:
            return "after-set_config"
        return "other"


def bfs(res, prefix, depth):
    rp = Replay(res)
    seen = set()
    frontier = [list(prefix)]
    canon, ok = rp.run(prefix, check_last_only=False)
    seen.add(canon)
    res.count("states")
    res.count("executions")
    if not ok:
        return
    for dpt in range(len(prefix), depth):
        nxt = []
        for hist in frontier:
            for op in OPS:
                h2 = hist + [op]
                if redundant(h2):
                    continue
                res.count("transitions")
                res.count("executions")
                res.evals += 1
                canon, ok = rp.run(h2)
                res.mx("max_depth", len(h2))
                if not ok:
                    continue
                if canon not in seen:
                    seen.add(canon)
                    res.count("states")
                    nxt.append(h2)
                    if len(h2) >= 3:
                        res.nt(tuple(map(tuple, h2)))
        frontier = nxt
    res.sample(dict(prefix=prefix, depth=depth, states=len(seen), example_history=frontier[0] if frontier else prefix), cap=1)


def redundant(h):
    # the same operation twice in a row never leads anywhere new
    return len(h) >= 2 and h[-1] == h[-2] and h[-1][0] not in ("get", "get2")


def hash_stability(res):
    """keys identical across processes, hash seeds and option insertion orders"""
    code = r'''
import sys, json, warnings, logging
warnings.simplefilter("ignore"); logging.disable(logging.CRITICAL)
sys.path.insert(0, "/verif")
from vlib import env
from vlib.checks import c02
order = int(sys.argv[1])
out = {}
for mid, top in (("base","base"),("v2","base"),("newdefault","v2"),("otherclass","base")):
    items = [("shared_opt", (1,"a")), ("top_opt", {"k":[1,2], "j": {"z": 1, "a": 2}}), ("mid_opt", 4), ("untracked_opt", 9)]
    if order: items = items[::-1]
    cfg = {}
    for k, v in items:
        if k == "top_opt" and order: v = {"j": {"a": 2, "z": 1}, "k": [1,2]}
        cfg[k] = v
    model = dict(mid=mid, top=top, config=cfg, fuzzy_for=[], fuzzy_opt=[])
    st = c02.fresh_context(model, "/tmp", empty=True)
    out[mid+"/"+top] = c02.keys_of(st)
print(json.dumps(out, sort_keys=True))
'''
    outs = set()
    for seed in ("0", "1", "2"):
        for order in ("0", "1"):
            env2 = dict(os.environ, PYTHONHASHSEED=seed)
            p = subprocess.run([sys.executable, "-c", code, order], capture_output=True, text=True, env=env2, timeout=300)
            if p.returncode != 0:
                res.harness_errors.append("hash-stability subprocess failed: " + p.stderr[-500:])
                return
            outs.add(p.stdout.strip().splitlines()[-1])
            res.evals += 1
            res.count("hash_stability_runs")
    if len(outs) != 1:
        res.violation("keys:not-deterministic", f"keys differ across hash seeds / option insertion orders: {len(outs)} distinct outputs", dict(sub="hash_stability"))


def plan(tier, seed):
    depth = 4 if tier == "quick" else 5
    jobs = []
    for a in OPS:
        for b in OPS:
            if redundant([a, b]):
                continue
            jobs.append(("bfs", [a, b], depth))
    jobs.append(("hash",))
    return jobs


def worker_init():
    vsched.install()
    g.quiet()
    import strax.storage.files as F

    F.print = lambda *a, **k: None


def run_job(job):
    res = Result()
    if job[0] == "hash":
        hash_stability(res)
    else:
        bfs(res, job[1], job[2])
    return res


def replay(case):
    worker_init()
    res = Result()
    if case.get("sub") == "hash_stability":
        hash_stability(res)
        return res.violations
    tup = lambda x: tuple(tup(y) for y in x) if isinstance(x, list) else x
    hist = [fix_op(o) for o in case["history"]]
    Replay(res).run(hist, check_last_only=False)
    return res.violations


def fix_op(o):
    """JSON round trip turns tuples into lists; restore the operation's value types"""
    for op in OPS:
        if json.loads(json.dumps(op)) == list(o) or json.loads(json.dumps(op)) == o:
            return op
    return tuple(o)


def sanity(total, tier):
    if total.counters.get("states", 0) < 200:
        return "fewer than 200 canonical states"
