"""C12 - outputs that violate a plugin's declared contract are rejected, not stored."""
import warnings
import numpy as np
import strax
from vlib.runner import Result
from vlib import graphs as g, ctxrun, vsched, explore

ID = "C12"
LEVEL = "exploration"
RULE = (
    "violation kind {wrong dtype (other fields) as bare array / inside a Chunk, wrong dtype with the SAME field names but another "
    "number format as bare array / inside a Chunk, row before / after the chunk range, a non-last row ending after the chunk, chunk labelled "
    "with another data type / with the name of a sibling output of the same plugin, target chunks overlapping, target chunks with a "
    "gap, the same two with a zero-duration chunk sitting exactly at the discontinuity, non-dict from a multi-output plugin} x plugin "
    "kind {source, ordinary, multi-output, down-chunking, loop, cut, overlap-window} (applicable pairs) x offending chunk {first, "
    "middle, last} x processor {single_thread, threaded (controlled default schedule; thorough: all schedules with <=1 delay)} x "
    "{offending type is the target, a downstream type is the target}; oracle: get_array raises, and a fresh Context reports the "
    "offending data type and its descendants not stored. non-trivial: every enumerated case injects a real contract violation; "
    "distinct by (violation, plugin kind, position, processor, target)."
)
ASSUMPTIONS = ["chunks of 1-2 rows (far below the 500-row window the constructor inspects)", "violations are injected by tampering with the harness plugin's return value; everything downstream is the real code"]
BOUNDS = {"quick": "all applicable (violation, kind, position, processor, target) cells; threaded under the default schedule", "thorough": "same cells, threaded cells explored over all schedules with <=1 delay"}
RUN = "0"
IV = ((0, 1), (1, 2), (3, 4), (5, 6), (6, 7))
BOUNDS3 = (0, 2, 5, 8)
WRONG = np.dtype(strax.time_fields + [(("other", "zz"), np.float32)])

# graph per plugin kind: (spec name, offending node, downstream target or None)
KINDS = {
    "source": ("chain2", "src", "mp"),
    "ordinary": ("chain3", "mp", "fl"),
    "multi": ("multi_used", "mo", "nn"),
    "downchunk": ("down_mid", "dc", "mp"),
    "loop": ("twokind", "lp", None),
    "cut": ("cutg", "ct", None),
    "overlap": ("overlap_mid", "ow", "mp"),
}
def wrong_fmt(dt):
    """same field names and titles, but the last field has another number format"""
    d = []
    for i, nm in enumerate(dt.names):
        f = dt.fields[nm]
        title = f[2] if len(f) > 2 else None
        fmt = f[0]
        if i == len(dt.names) - 1:
            fmt = np.dtype(np.float32) if fmt.kind in "iu" else np.dtype(np.int32)
        d.append(((title, nm), fmt) if title is not None else (nm, fmt))
    return np.dtype(d)


def to_wrong(arr, dt):
    w = np.zeros(len(arr), dt)
    for nm in dt.names:
        if nm in arr.dtype.names:
            w[nm] = arr[nm]
    if "endtime" in dt.names:
        w["endtime"] = strax.endtime(arr)
    return w


VIOLS = {
    "dtype_bare": ("ordinary", "multi", "loop", "cut", "overlap"),
    "dtype_chunk": ("source", "ordinary", "multi", "downchunk", "loop", "cut", "overlap"),
    "dtype_fmt_bare": ("ordinary", "multi", "loop", "cut", "overlap"),
    "dtype_fmt_chunk": ("source", "ordinary", "multi", "downchunk", "loop", "cut", "overlap"),
    "row_late_inner": ("source", "ordinary", "multi", "downchunk", "loop", "overlap"),
    "row_early": ("source", "ordinary", "multi", "downchunk", "loop", "cut", "overlap"),
    "row_late": ("source", "ordinary", "multi", "downchunk", "loop", "cut", "overlap"),
    "wrong_label": ("source", "ordinary", "multi", "downchunk", "loop", "cut", "overlap"),
    "overlap_chunks": ("source", "downchunk"),
    "gap_chunks": ("source", "downchunk"),
    "non_dict": ("multi",),
    "sibling_label": ("multi",),  # a chunk of one output labelled with the name of the plugin's OTHER output
    "gap_zero": ("source",),  # [a,b) [c,c] [c,d) with c = b+1: a zero-duration chunk sits exactly at the discontinuity
    "overlap_zero": ("source",),  # the same with c = b-1
}
BOUNDS_ZERO = (0, 2, 5, 5, 8)  # chunk 2 is the zero-duration chunk [5,5]


def catalogue():
    c = g.catalogue()
    c["cutg"] = [g.N("src", "source"), g.N("ct", "cut", ["src"])]
    return c


def as_chunk(plugin, r, start, end, data_type, dtype=None, data=None, label=None):
    return strax.Chunk(start=start, end=end, run_id=RUN, data_kind=plugin.data_kind_for(data_type), data_type=label or data_type,
                       dtype=dtype if dtype is not None else plugin.dtype_for(data_type), data=data if data is not None else r)


def make_post(viol, node, pos, multi_first):
    """-> post(node, idx, plugin, result, start, end) that corrupts chunk number `pos` of `node`"""
    state = {"hit": False}

    def tamper_array(plugin, arr, start, end, dt_name):
        if viol == "dtype_bare":
            w = np.zeros(len(arr), WRONG)
            w["time"], w["endtime"] = arr["time"], strax.endtime(arr)
            return w
        if viol == "dtype_chunk":
            w = np.zeros(len(arr), WRONG)
            w["time"], w["endtime"] = arr["time"], strax.endtime(arr)
            return as_chunk(plugin, arr, start, end, dt_name, dtype=WRONG, data=w)
        if viol == "dtype_fmt_bare":
            return to_wrong(arr, wrong_fmt(arr.dtype))
        if viol == "dtype_fmt_chunk":
            return as_chunk(plugin, arr, start, end, dt_name, dtype=wrong_fmt(arr.dtype), data=to_wrong(arr, wrong_fmt(arr.dtype)))
        if viol == "row_late_inner":
            if len(arr) < 2:
                state["hit"] = False
                return arr
            a = arr.copy()
            a["endtime"][0] = end + 100  # rows stay sorted by time; the LAST row still ends inside the chunk
            return a
        if viol in ("row_early", "row_late"):
            a = arr.copy()
            if not len(a):
                a = np.zeros(1, arr.dtype)
                a["time"], a["endtime"] = start, start + 1
            if viol == "row_early":
                a["time"][0] = start - 100
            else:
                a["endtime"][-1] = end + 100
            return a
        if viol == "wrong_label":
            return as_chunk(plugin, arr, start, end, dt_name, label="zz_other")
        if viol == "sibling_label":
            other = [p for p in plugin.provides if p != dt_name][0]
            return as_chunk(plugin, arr, start, end, dt_name, label=other)
        raise AssertionError(viol)

    def post(n, idx, plugin, r, start, end):
        if n != node:
            return r
        j = idx[0] if isinstance(idx, tuple) else idx
        sub = idx[1] if isinstance(idx, tuple) else 0
        if isinstance(r, strax.Chunk):  # source / down-chunking yield chunks
            if viol in ("gap_zero", "overlap_zero"):
                d = 1 if viol == "gap_zero" else -1
                if j == 2 and r.start == r.end:
                    state["hit"] = True
                    return strax.Chunk(start=r.start + d, end=r.end + d, run_id=r.run_id, data_kind=r.data_kind, data_type=r.data_type, dtype=r.dtype, data=r.data)
                if j == 3 and state["hit"]:
                    return strax.Chunk(start=r.start + d, end=r.end, run_id=r.run_id, data_kind=r.data_kind, data_type=r.data_type, dtype=r.dtype, data=r.data[r.data["time"] >= r.start + d])
                return r
            if viol in ("overlap_chunks", "gap_chunks"):
                k = j if not isinstance(idx, tuple) else sub
                if k == pos and k > 0:
                    state["hit"] = True
                    d = -1 if viol == "overlap_chunks" else 1
                    if r.end <= r.start + d:
                        return r
                    return strax.Chunk(start=r.start + d, end=r.end, run_id=r.run_id, data_kind=r.data_kind, data_type=r.data_type, dtype=r.dtype, data=r.data[r.data["time"] >= r.start + d])
                return r
            k = j if not isinstance(idx, tuple) else (j if pos < 3 else sub)
            if k != pos or state["hit"]:
                return r
            state["hit"] = True
            if viol == "dtype_chunk":
                w = np.zeros(len(r.data), WRONG)
                w["time"], w["endtime"] = r.data["time"], strax.endtime(r.data)
                return strax.Chunk(start=r.start, end=r.end, run_id=r.run_id, data_kind=r.data_kind, data_type=r.data_type, dtype=WRONG, data=w)
            if viol == "wrong_label":
                return strax.Chunk(start=r.start, end=r.end, run_id=r.run_id, data_kind=r.data_kind, data_type="zz_other", dtype=r.dtype, data=r.data)
            if viol == "dtype_fmt_chunk":
                wd = wrong_fmt(r.data.dtype)
                return strax.Chunk(start=r.start, end=r.end, run_id=r.run_id, data_kind=r.data_kind, data_type=r.data_type, dtype=wd, data=to_wrong(r.data, wd))
            if viol == "row_late_inner":
                if len(r.data) < 2:
                    state["hit"] = False
                    return r
                a = r.data.copy()
                a["endtime"][0] = r.end + 100
                return strax.Chunk(start=r.start, end=r.end, run_id=r.run_id, data_kind=r.data_kind, data_type=r.data_type, dtype=r.dtype, data=a)
            if viol in ("row_early", "row_late"):
                a = r.data.copy()
                if not len(a):
                    a = np.zeros(1, r.data.dtype)
                    a["time"], a["endtime"] = r.start, r.start + 1
                if viol == "row_early":
                    a["time"][0] = r.start - 100
                else:
                    a["endtime"][-1] = r.end + 100
                # an honest constructor call, as a plugin would make it
                return strax.Chunk(start=r.start, end=r.end, run_id=r.run_id, data_kind=r.data_kind, data_type=r.data_type, dtype=r.dtype, data=a)
            return r
        if j != pos:
            return r
        state["hit"] = True
        if isinstance(r, dict):
            if viol == "non_dict":
                return r[multi_first]
            out = dict(r)
            out[multi_first] = tamper_array(plugin, r[multi_first], start, end, multi_first)
            return out
        return tamper_array(plugin, r, start, end, plugin.provides[0])

    post.state = state
    return post


def descendants(spec, node_types):
    out = set(node_types)
    changed = True
    while changed:
        changed = False
        for n in spec:
            if any(d in out for d in n["deps"]):
                for p in g.provides_of(n):
                    if p not in out:
                        out.add(p)
                        changed = True
    return out


def run_case(res, viol, kind, pos, processor, downstream, sched_runner=None):
    gname, node, down = KINDS[kind]
    spec = catalogue()[gname]
    case = dict(viol=viol, kind=kind, pos=pos, processor=processor, downstream=downstream)
    nd = [n for n in spec if n["name"] == node][0]
    own = g.provides_of(nd)
    target = down if (downstream and down) else own[0]
    sources = {n["name"]: dict(iv=IV, bounds=BOUNDS_ZERO if viol in ("gap_zero", "overlap_zero") else BOUNDS3) for n in spec if n["kind"] == "source"}
    if gname == "twokind":
        sources = {"ev": dict(iv=((0, 2), (2, 5), (5, 8)), bounds=BOUNDS3), "th": dict(iv=IV, bounds=BOUNDS3)}
    d = ctxrun.fresh_dir("c12")
    world = g.World(spec, sources)
    world.post = make_post(viol, node, pos, own[0])
    attrs = {n["name"]: dict(rechunk_on_save=False) for n in spec}
    classes = g.make_classes(spec, world, attrs)

    def ctx():
        return strax.Context(storage=[strax.DataDirectory(d)], register=classes, **g.CTX_DEFAULTS)

    st = ctx()
    exc = None
    got = None
    f = lambda: st.get_array(RUN, target, processor=processor, progress_bar=False)
    try:
        with warnings.catch_warnings():
            warnings.simplefilter("ignore")
            if processor == "threaded_mailbox":
                got = (sched_runner or ctxrun.run_controlled)(f)
            else:
                got = f()
    except ctxrun.Deadlock as e:
        res.violation(f"deadlock:{viol}:{kind}", str(e), case)
        return
    except vsched.Abort:
        raise
    except Exception as e:
        exc = e
    if not world.post.state["hit"]:
        res.count("violation_not_injected")
        return
    res.count("injected")
    if exc is None:
        res.violation(f"accepted:{viol}:{kind}", f"{viol} in {kind} plugin (chunk {pos}, {processor}, target {target}) was handed to the user as a normal result ({len(got)} rows)", case)
    # storage: the offending type and everything computed from it must not be stored
    st2 = ctx()
    bad = descendants(spec, own)
    for t in sorted(bad):
        try:
            if st2.is_stored(RUN, t):
                res.violation(f"stored:{viol}:{kind}", f"after {viol} in {kind} plugin (chunk {pos}, {processor}) data type {t} is reported as stored", case)
        except Exception as e:
            res.violation(f"is_stored-raised:{type(e).__name__}", str(e)[:200], case)


def cells():
    C = []
    for viol, kinds in VIOLS.items():
        for kind in kinds:
            for pos in (0, 1, 2):
                if viol in ("overlap_chunks", "gap_chunks") and pos == 0:
                    continue
                if viol in ("gap_zero", "overlap_zero") and pos != 2:
                    continue
                for proc in ("single_thread", "threaded_mailbox"):
                    for downstream in (False, True):
                        if downstream and KINDS[kind][2] is None:
                            continue
                        if downstream and viol in ("overlap_chunks", "gap_chunks", "gap_zero", "overlap_zero"):
                            continue  # the statement is about the chunks of the REQUESTED target
                        C.append((viol, kind, pos, proc, downstream))
    return C


def plan(tier, seed):
    C = cells()
    NS = 16
    jobs = [("cells", sh, NS, tier) for sh in range(NS)]
    if tier == "thorough":
        jobs += [("sched", i, 0, tier) for i, c in enumerate(C) if c[3] == "threaded_mailbox"]
    else:
        th = [i for i, c in enumerate(C) if c[3] == "threaded_mailbox"]
        jobs += [("sched", i, 0, tier) for k, i in enumerate(th) if (k + seed) % 12 == 0]
    return jobs


def worker_init():
    vsched.install()
    g.quiet()
    import strax.storage.files as F

    F.print = lambda *a, **k: None


class SH(explore.Harness):
    def __init__(self, cell):
        self.cell = cell
        self.r = Result()

    def main(self):
        run_case(self.r, *self.cell, sched_runner=lambda f: f())

    def final(self, s):
        if self.r.violations:
            v = self.r.violations[0]
            return v["fingerprint"], v["fingerprint"] + " :: " + v["what"]
        return "ok", None


def run_job(job):
    kind_, a, b, tier = job
    res = Result()
    C = cells()
    if kind_ == "cells":
        for i, cell in enumerate(C):
            if i % b != a:
                continue
            res.evals += 1
            res.nt(cell)
            run_case(res, *cell)
            if i % 37 == 0:
                res.sample(dict(zip(("violation", "plugin_kind", "chunk", "processor", "downstream_target"), cell)), cap=2)
        return res
    cell = C[a]
    r = explore.explore(lambda: SH(cell), regime="delay", bound=1, hashing=False, max_execs=5000)
    res.evals += 1
    res.count("sched_cells")
    res.count("sched_executions", r.executions)
    if r.cap_hit:
        res.caps_hit.append(str(r.cap_hit))
    for k, msg, choices in r.violations[:2]:
        fpr = msg.split(" :: ")[0] if " :: " in msg else f"{k}:{cell[0]}:{cell[1]}"
        res.violation(fpr, f"[schedule-dependent, {len(choices)} choices] " + msg[:300], dict(zip(("viol", "kind", "pos", "processor", "downstream"), cell), choices=choices))
    return res


def replay(case):
    worker_init()
    res = Result()
    cell = (case["viol"], case["kind"], case["pos"], case["processor"], case["downstream"])
    if "choices" in case:
        h, s, info = explore.replay(lambda: SH(cell), case["choices"])
        k, v = h.final(s)
        return [dict(fingerprint=str(k), what=v)] if v else []
    run_case(res, *cell)
    return res.violations


def sanity(total, tier):
    if total.counters.get("injected", 0) < 100:
        return f"only {total.counters.get('injected', 0)} violations were actually injected"
