"""C07 - split / concatenate / merge / rechunk obey the laws of chunking.
Exhaustive small-scope enumeration against a reference model."""
import itertools, warnings
import numpy as np
import strax
from vlib.runner import Result
from vlib import smallscope as ss

ID = "C07"
LEVEL = "exploration"
RULE = (
    "every sorted interval array (overlaps, shared endpoints, duplicates allowed) of <=N rows with endpoints on a "
    "0..G grid, both endtime encodings, wrapped in every chunk range [0|first, last|G+1]; x every split time -1..G+2 x "
    "allow_early_split; every law-abiding partition re-concatenated (+ permuted / overlapping / mixed-type / mixed-run "
    "rejections); same-kind merges of 2-3 column sets (+ rejections); sub/superrun annotated chunks split and "
    "re-concatenated; Rechunker over every partition x target size; get_splits over every gap pattern. "
    "A case is non-trivial when it has >=1 row (split: and the split time is strictly inside the chunk); distinct by input."
)
ASSUMPTIONS = [
    "small-scope hypothesis: <=4 rows (thorough 5) on a grid of 8 time points; time unit 600 ns for rechunking so that "
    "1 step < DEFAULT_CHUNK_SPLIT_NS < 2 steps",
    "zero-length rows are excluded from chunk-range partitions (their side of a cut is unspecified)",
]
BOUNDS = {
    "quick": "split: rows<=3 grid 0..7 + rows=4 grid 0..5; concat/rechunk: rows<=4 grid 0..6; get_splits: <=8 rows",
    "thorough": "split: rows<=4 grid 0..7 + rows=5 grid 0..5; concat/rechunk: rows<=5 grid 0..7; get_splits: <=10 rows",
}


def _chunk(rows, start, end, dtype, data_type="src", run_id="0", **kw):
    return strax.Chunk(data_type=data_type, data_kind="k", dtype=dtype, run_id=run_id, start=start, end=end, data=rows, **kw)


# ------------------------------------------------------------------ reference model
def ref_split(iv, S, E, t, early):
    """-> ('refuse',) | ('ok', t_eff).  iv: list of (a,b)"""
    t = max(min(t, E), S)
    if t == E or t == S:
        return ("ok", t)
    strad = lambda x: any(a < x < b for a, b in iv)
    if not strad(t):
        return ("ok", t)
    if not early:
        return ("refuse",)
    x = t
    while x > S and strad(x):
        x -= 1
    return ("ok", x)


def check_split(res, iv, enc, S, E, t, early):
    dtype = ss.DT_END if enc == 0 else ss.DT_DTLEN
    rows = ss.mk_rows(iv, dtype)
    c = _chunk(rows, S, E, dtype)
    exp = ref_split(iv, S, E, t, early)
    case = dict(sub="split", iv=iv, enc=enc, S=S, E=E, t=t, early=early)
    try:
        c1, c2 = c.split(t, allow_early_split=early)
    except strax.CannotSplit:
        if exp[0] != "refuse":
            res.violation("split:refused-without-straddle", f"split refused although no row straddles t; expected {exp}", case)
        return
    except Exception as e:
        res.violation(f"split:raised:{type(e).__name__}", f"split raised {type(e).__name__}: {e}", case)
        return
    if exp[0] == "refuse":
        res.violation("split:not-refused", f"a row straddles t but split returned {c1.start,c1.end,c2.start,c2.end}", case)
        return
    te = exp[1]
    ok = (c1.start == S and c1.end == te and c2.start == te and c2.end == E)
    if not ok:
        res.violation("split:wrong-time", f"expected split time {te}, got chunks [{c1.start},{c1.end}) [{c2.start},{c2.end})", case)
        return
    d = np.concatenate([c1.data, c2.data])
    if not np.array_equal(d, rows) or d.dtype != rows.dtype:
        res.violation("split:rows-changed", "rows of the two halves do not concatenate to the original", case)
        return
    if len(c1.data) and strax.endtime(c1.data).max() > te or len(c2.data) and c2.data["time"].min() < te:
        res.violation("split:row-on-wrong-side", "a row is not entirely on its side of the split", case)


def job_split(res, n, G, shard, nshards):
    k = -1
    for iv in ss.interval_sets(n, 0, G, min_len=0 if n <= 2 else 1):
        k += 1
        if k % nshards != shard:
            continue
        lo = iv[0][0] if iv else 0
        hi = max(b for a, b in iv) if iv else 0
        ranges = {(lo, hi), (0, G + 1), (lo, G + 1), (0, hi)}
        for enc in (0, 1):
            for S, E in sorted(ranges):
                for t in range(-1, G + 3):
                    for early in (False, True):
                        res.evals += 1
                        if n and S < t < E:
                            res.nt("s", iv, enc, S, E, t, early)
                        check_split(res, iv, enc, S, E, t, early)
        res.sample(dict(sub="split", iv=iv), cap=1)


# ------------------------------------------------------------------ concatenate
def check_concat(res, iv, enc, bounds):
    dtype = ss.DT_END if enc == 0 else ss.DT_DTLEN
    case = dict(sub="concat", iv=iv, enc=enc, bounds=bounds)
    rows = ss.mk_rows(iv, dtype)
    parts = ss.mk_chunks(iv, bounds, dtype)
    try:
        c = strax.Chunk.concatenate(parts)
    except Exception as e:
        res.violation(f"concat:raised:{type(e).__name__}", f"concatenate of a valid partition raised {e}", case)
        return
    if not (c.start == bounds[0] and c.end == bounds[-1] and np.array_equal(c.data, rows) and c.data_type == "src" and c.run_id == "0"):
        res.violation("concat:not-inverse", "concatenate(partition) != original", case)
    # split-then-concat round trip at each internal boundary
    for t in bounds[1:-1]:
        try:
            a, b = c.split(t, allow_early_split=False)
            cc = strax.Chunk.concatenate([a, b])
            if not (cc.start == c.start and cc.end == c.end and np.array_equal(cc.data, rows)):
                res.violation("concat:split-roundtrip", f"split({t}) then concatenate differs", case)
        except Exception as e:
            res.violation(f"concat:split-roundtrip-raised:{type(e).__name__}", f"{e}", case)
    if len(parts) >= 2:
        # rejections
        distinct_ranges = len({(p.start, p.end) for p in parts}) > 1
        for perm in itertools.permutations(range(len(parts))):
            if len(parts) > 3 and perm[:-2] != tuple(range(len(parts) - 2)):
                continue
            pp = [parts[i] for i in perm]
            # out of order iff some chunk starts before the previous one ended
            ooo = any(pp[i + 1].start < pp[i].end for i in range(len(pp) - 1))
            if not ooo:
                continue
            res.evals += 1
            try:
                strax.Chunk.concatenate(pp)
                res.violation("concat:out-of-order-accepted", f"permutation {perm} accepted", case)
            except ValueError:
                pass
            except Exception as e:
                res.violation(f"concat:out-of-order-wrong-exc:{type(e).__name__}", str(e), case)
        # mismatched type / run
        other = ss.mk_chunks(iv, bounds, dtype, data_type="other")
        try:
            strax.Chunk.concatenate([parts[0], other[1]])
            res.violation("concat:mixed-type-accepted", "chunks of different data types concatenated", case)
        except ValueError:
            pass
        otherrun = ss.mk_chunks(iv, bounds, dtype, run_id="1")
        try:
            strax.Chunk.concatenate([parts[0], otherrun[1]])
            res.violation("concat:mixed-run-accepted", "chunks of different runs concatenated", case)
        except ValueError:
            pass
        # overlapping: extend first chunk's range by one if possible (range overlap, rows still inside)
        if parts[1].end > parts[1].start:
            p0 = parts[0]
            try:
                wide = _chunk(p0.data, p0.start, p0.end + 1, dtype)
                try:
                    strax.Chunk.concatenate([wide] + parts[1:])
                    res.violation("concat:overlap-accepted", "overlapping chunk ranges concatenated", case)
                except ValueError:
                    pass
            except ValueError:
                pass


def job_concat(res, n, G, shard, nshards):
    k = -1
    for iv in ss.interval_sets(n, 0, G, min_len=1):
        k += 1
        if k % nshards != shard:
            continue
        lo = iv[0][0] if iv else 0
        hi = max(b for a, b in iv) if iv else 1
        for S, E in sorted({(lo, hi), (0, G + 1)}):
            for enc in (0, 1):
                for bounds in ss.chunkings(iv, S, E, zero_dur=(n <= 3)):
                    res.evals += 1
                    if n and len(bounds) > 2:
                        res.nt("c", iv, enc, bounds)
                    check_concat(res, iv, enc, bounds)
        res.sample(dict(sub="concat", iv=iv), cap=1)


# ------------------------------------------------------------------ merge
def check_merge(res, iv, S, E):
    case = dict(sub="merge", iv=iv, S=S, E=E)
    base = ss.mk_rows(iv, ss.DT_END)
    dA = np.dtype(strax.time_fields + [(("fa", "a"), np.int32), (("shared", "sh"), np.int32)])
    dB = np.dtype(strax.time_fields + [(("fb", "b"), np.float32), (("shared", "sh"), np.int32)])
    dC = np.dtype(strax.time_fields + [(("fc", "c"), np.int16, 2)])

    def mk(dt, name, mult, n=None, S_=S, E_=E, kind="k", run="0"):
        r = np.zeros(len(iv) if n is None else n, dt)
        m = len(r)
        r["time"] = base["time"][:m]
        r["endtime"] = base["endtime"][:m]
        for f in dt.names:
            if f in ("time", "endtime"):
                continue
            if r[f].ndim == 1:
                r[f] = np.arange(m) * mult + mult
            else:
                r[f] = (np.arange(m) * mult + mult)[:, None]
        return strax.Chunk(data_type=name, data_kind=kind, dtype=dt, run_id=run, start=S_, end=E_, data=r)

    A, B, C = mk(dA, "ta", 1), mk(dB, "tb", 10), mk(dC, "tc", 100)
    for combo in ([A, B], [B, A], [A, C], [A, B, C], [C, B, A], [A, None, B]):
        res.evals += 1
        try:
            m = strax.Chunk.merge(combo, data_type="merged")
        except Exception as e:
            res.violation(f"merge:raised:{type(e).__name__}", f"valid merge raised {e}", case)
            continue
        real = [c for c in combo if c is not None]
        if not (m.start == S and m.end == E and len(m) == len(iv) and m.data_kind == "k"):
            res.violation("merge:range", "merged chunk range/length wrong", case)
            continue
        for c in real:  # later chunk wins
            for f in c.dtype.names:
                last = [x for x in real if f in x.dtype.names][-1]
                if not np.array_equal(m.data[f], last.data[f]):
                    res.violation("merge:field-value", f"field {f} does not carry the last provider's values", case)
        want = set(itertools.chain.from_iterable(c.dtype.names for c in real))
        if set(m.data.dtype.names) != want:
            res.violation("merge:fields", f"fields {m.data.dtype.names} != union {sorted(want)}", case)
    # rejections
    bad = []
    if len(iv) >= 1:
        bad.append(("unequal-length", [A, mk(dB, "tb", 10, n=len(iv) - 1)]))
    bad.append(("range", [A, mk(dB, "tb", 10, E_=E + 1)]))
    bad.append(("kind", [A, mk(dB, "tb", 10, kind="other")]))
    bad.append(("run", [A, mk(dB, "tb", 10, run="1")]))
    for name, combo in bad:
        res.evals += 1
        try:
            strax.Chunk.merge(combo)
            res.violation(f"merge:accepted-{name}", f"merge accepted chunks with mismatching {name}", case)
        except ValueError:
            pass
        except Exception as e:
            res.violation(f"merge:wrong-exc-{name}:{type(e).__name__}", str(e), case)


def job_merge(res, n, G, shard, nshards):
    k = -1
    for iv in ss.interval_sets(n, 0, G, min_len=1):
        k += 1
        if k % nshards != shard:
            continue
        lo = iv[0][0] if iv else 0
        hi = max(b for a, b in iv) if iv else 1
        for S, E in sorted({(lo, hi), (0, G + 1)}):
            if n:
                res.nt("m", iv, S, E)
            check_merge(res, iv, S, E)
        res.sample(dict(sub="merge", iv=iv), cap=1)


# ------------------------------------------------------------------ sub / superrun annotations
def ref_split_runs(runs, t):
    a, b = {}, {}
    for r, (s, e) in runs.items():
        if s < min(e, t):
            a[r] = (s, min(e, t))
        if max(s, t) < e:
            b[r] = (max(s, t), e)
    return a or None, b or None


def _norm(d):
    return None if d is None else {k: (v["start"], v["end"]) for k, v in d.items()}


def check_subruns(res, iv, spans, S, E):
    """chunk of a superrun '_s' over [S,E) with subruns tiling spans (list of (s,e)); promised continuity"""
    case = dict(sub="subruns", iv=iv, spans=spans, S=S, E=E)
    runs = {str(i + 1): (s, e) for i, (s, e) in enumerate(spans)}
    sub = {k: dict(start=s, end=e) for k, (s, e) in runs.items()}
    rows = ss.mk_rows(iv, ss.DT_END)
    try:
        c = _chunk(rows, S, E, ss.DT_END, run_id="_s", subruns=sub)
        # a chunk concatenated from several runs (superrun attribute holds the runs, run_id None)
        c2 = _chunk(rows, S, E, ss.DT_END, run_id=None if len(runs) > 1 else "1", superrun=sub)
    except Exception as e:
        res.violation(f"subruns:ctor:{type(e).__name__}", str(e), case)
        return
    assert c.is_superrun
    for t in range(S, E + 1):
        if any(a < t < b for a, b in iv):
            continue
        res.evals += 1
        ea, eb = ref_split_runs(runs, t)
        try:
            l, r = c.split(t)
        except Exception as e:
            res.violation(f"subruns:split-raised:{type(e).__name__}", f"t={t}: {e}", case)
            continue
        if _norm(l.subruns) != ea or _norm(r.subruns) != eb:
            res.violation("subruns:split-annotation", f"t={t}: got {_norm(l.subruns)} | {_norm(r.subruns)} expected {ea} | {eb}", case)
        # concat inverse
        try:
            cc = strax.Chunk.concatenate([l, r], allow_superrun=True)
            if _norm(cc.subruns) != runs or cc.start != S or cc.end != E or not np.array_equal(cc.data, rows):
                res.violation("subruns:concat-inverse", f"t={t}: concatenated subruns {_norm(cc.subruns)} != {runs}", case)
        except Exception as e:
            res.violation(f"subruns:concat-raised:{type(e).__name__}", f"t={t}: {e}", case)
        # superrun attribute (which runs a concatenated chunk consists of): by construction it tiles the chunk
        # from edge to edge, so only such annotations are meaningful
        if spans[0][0] != S or spans[-1][1] != E:
            continue
        try:
            l2, r2 = c2.split(t)
        except Exception as e:
            res.violation(f"superrun:split-raised:{type(e).__name__}", f"t={t}: {e}", case)
            continue
        # halves without width have the default superrun {run_id:{start,end}}
        for half, exp_ in ((l2, ea), (r2, eb)):
            got = _norm(half.superrun)
            if exp_ is not None:
                if got != exp_:
                    res.violation("superrun:split-annotation", f"t={t}: got {got} expected {exp_}", case)
                exp_run = list(exp_)[0] if len(exp_) == 1 else None
                if half.run_id != exp_run:
                    res.violation("superrun:split-runid", f"t={t}: run_id {half.run_id!r} expected {exp_run!r}", case)
        try:
            if l2.end > l2.start and r2.end > r2.start:
                cc2 = strax.Chunk.concatenate([l2, r2], allow_superrun=True)
                if _norm(cc2.superrun) != runs or not np.array_equal(cc2.data, rows):
                    res.violation("superrun:concat-inverse", f"t={t}: {_norm(cc2.superrun)} != {runs}", case)
        except Exception as e:
            res.violation(f"superrun:concat-raised:{type(e).__name__}", f"t={t}: {e}", case)


def job_subruns(res, n, G, shard, nshards):
    k = -1
    for iv in ss.interval_sets(n, 0, G, min_len=1, disjoint=True):
        # span sets: 1..3 subruns, first starts at S, last ends at E, gaps allowed, each row inside one span
        S, E = 0, G
        pts = range(S, E + 1)
        for nr in (1, 2, 3):
            for cutpts in itertools.combinations(pts, 2 * nr):
                # subruns may or may not reach the chunk edges (time gaps between / around subruns)
                spans = [(cutpts[2 * i], cutpts[2 * i + 1]) for i in range(nr)]
                if not all(any(s <= a and b <= e for s, e in spans) for a, b in iv):
                    continue
                k += 1
                if k % nshards != shard:
                    continue
                if n:
                    res.nt("r", iv, tuple(spans))
                check_subruns(res, iv, spans, S, E)
    res.sample(dict(sub="subruns", example=dict(iv=[(0, 1)], spans=[(0, 2), (3, 4)])), cap=1)


# ------------------------------------------------------------------ rechunker
U = 600


def check_rechunk(res, iv, bounds, target_rows, enc):
    dtype = ss.DT_END if enc == 0 else ss.DT_DTLEN
    case = dict(sub="rechunk", iv=iv, bounds=bounds, target_rows=target_rows, enc=enc, scale=U)
    tmb = (target_rows * dtype.itemsize + 1) / 1e6 if target_rows else strax.DEFAULT_CHUNK_SIZE_MB
    parts = ss.mk_chunks(iv, bounds, dtype, scale=U, target_size_mb=tmb)
    rows = ss.mk_rows(iv, dtype, scale=U)
    rc = strax.Rechunker(rechunk=True, run_id="0")
    out = []
    try:
        for p in parts:
            out += rc.receive(p)
        out += rc.flush()
    except Exception as e:
        tb = e.__traceback__
        fn = None
        while tb:
            fn = tb.tb_frame.f_code.co_name
            tb = tb.tb_next
        res.violation(f"rechunk:raised:{type(e).__name__}:{fn}", f"Rechunker failed on valid input: {type(e).__name__}: {e}", case)
        return
    if not out:
        res.violation("rechunk:nothing", "no output chunks", case)
        return
    if out[0].start != parts[0].start or out[-1].end != parts[-1].end:
        res.violation("rechunk:range", f"overall range {out[0].start}-{out[-1].end} != {parts[0].start}-{parts[-1].end}", case)
    if any(out[i].end != out[i + 1].start for i in range(len(out) - 1)):
        res.violation("rechunk:not-contiguous", f"{[(c.start,c.end) for c in out]}", case)
    d = np.concatenate([c.data for c in out])
    if not np.array_equal(d, rows):
        res.violation("rechunk:rows", "rows differ after rechunking", case)
    for c in out:
        if len(c.data) and (c.data["time"].min() < c.start or strax.endtime(c.data).max() > c.end):
            res.violation("rechunk:straddle", "row outside its chunk", case)
    res.add_set("rechunk_out_layouts", len(out))


def job_rechunk(res, n, G, shard, nshards):
    k = -1
    for iv in ss.interval_sets(n, 0, G, min_len=1):
        k += 1
        if k % nshards != shard:
            continue
        lo = iv[0][0] if iv else 0
        hi = max(b for a, b in iv) if iv else 1
        for S, E in sorted({(lo, hi), (0, G + 1)}):
            for bounds in ss.chunkings(iv, S, E, zero_dur=(n <= 2)):
                for tr in (1, 2, 3, 0):
                    res.evals += 1
                    if n >= 2:
                        res.nt("rc", iv, bounds, tr)
                    check_rechunk(res, iv, bounds, tr, k % 2)
        res.sample(dict(sub="rechunk", iv=iv), cap=1)


def job_getsplits(res, n, shard, nshards):
    """rows of one unit; gaps pattern in {0 (touching), 1 unit (<min_gap), 2 units (>min_gap)}^(n-1)"""
    k = -1
    for gaps in itertools.product((0, 1, 2), repeat=n - 1):
        k += 1
        if k % nshards != shard:
            continue
        t = 0
        iv = []
        for i in range(n):
            iv.append((t, t + 1))
            if i < n - 1:
                t += 1 + gaps[i]
        rows = ss.mk_rows(iv, ss.DT_END, scale=U)
        gi = [i + 1 for i, g in enumerate(gaps) if g == 2]
        for tr in range(1, n + 2):
            res.evals += 1
            if gi:
                res.nt("gs", gaps, tr)
            case = dict(sub="get_splits", gaps=gaps, target_rows=tr, scale=U)
            try:
                sp = strax.Rechunker.get_splits(rows, tr * rows.itemsize + 1, strax.DEFAULT_CHUNK_SPLIT_NS)
            except Exception as e:
                res.violation(f"rechunk:raised:{type(e).__name__}:get_splits", f"get_splits failed on valid input: {type(e).__name__}: {e}", case)
                continue
            sp = list(sp)
            if sp[0] != 0 or any(b <= a for a, b in zip(sp, sp[1:])) or any(s not in gi for s in sp[1:]):
                res.violation("get_splits:bad-indices", f"splits {sp} not an increasing subset of gap indices {gi}", case)
            # 'approximately target_size': whenever an eligible gap lies beyond the target, at least one split is made
            if gi and gi[-1] > tr and len(sp) < 2:
                res.violation("get_splits:no-split", f"eligible gaps {gi} beyond target {tr} but no split made", case)
    res.sample(dict(sub="get_splits", n=n), cap=1)


SUBS = dict(split=job_split, concat=job_concat, merge=job_merge, subruns=job_subruns, rechunk=job_rechunk, getsplits=job_getsplits)


def plan(tier, seed):
    jobs = []
    NS = 16
    if tier == "quick":
        cfg = dict(split=[(0, 7), (1, 7), (2, 7), (3, 6), (4, 4)], concat=[(0, 6), (1, 6), (2, 6), (3, 6), (4, 5)], merge=[(0, 5), (1, 5), (2, 5), (3, 5)],
                   subruns=[(0, 5), (1, 6), (2, 6), (3, 6)], rechunk=[(1, 6), (2, 7), (3, 7), (4, 5)], getsplits=[2, 3, 4, 5, 6, 7, 8])
    else:
        cfg = dict(split=[(0, 7), (1, 7), (2, 7), (3, 7), (4, 7), (5, 5)], concat=[(0, 7), (1, 7), (2, 7), (3, 7), (4, 7), (5, 6)], merge=[(0, 6), (1, 6), (2, 6), (3, 6), (4, 6)],
                   subruns=[(0, 6), (1, 6), (2, 6), (3, 6)], rechunk=[(1, 7), (2, 7), (3, 7), (4, 7), (5, 6)], getsplits=list(range(2, 11)))
    for sub, lst in cfg.items():
        for p in lst:
            p = p if isinstance(p, tuple) else (p,)
            big = (p[0] >= 3) if sub != "getsplits" else p[0] >= 7
            ns = NS if big else 1
            for s in range(ns):
                jobs.append((sub,) + p + (s, ns))
    return jobs


def run_job(job):
    res = Result()
    with warnings.catch_warnings():
        warnings.simplefilter("ignore")
        SUBS[job[0]](res, *job[1:])
    res.count("cases_" + job[0], res.evals)
    return res


def replay(case):
    res = Result()
    sub = case["sub"]
    tup = lambda x: tuple(tuple(y) for y in x)
    if sub == "split":
        check_split(res, tup(case["iv"]), case["enc"], case["S"], case["E"], case["t"], case["early"])
    elif sub == "concat":
        check_concat(res, tup(case["iv"]), case["enc"], tuple(case["bounds"]))
    elif sub == "merge":
        check_merge(res, tup(case["iv"]), case["S"], case["E"])
    elif sub == "subruns":
        check_subruns(res, tup(case["iv"]), [tuple(x) for x in case["spans"]], case["S"], case["E"])
    elif sub == "rechunk":
        check_rechunk(res, tup(case["iv"]), tuple(case["bounds"]), case["target_rows"], case["enc"])
    elif sub == "get_splits":
        n = len(case["gaps"]) + 1
        r2 = Result()
        job_getsplits(r2, n, 0, 1)
        res.violations = [v for v in r2.violations if list(v["case"]["gaps"]) == list(case["gaps"]) and v["case"]["target_rows"] == case["target_rows"]]
    return res.violations


def sanity(total, tier):
    for s in SUBS:
        if total.counters.get("cases_" + s, 0) < 50:
            return f"sub-check {s} explored only {total.counters.get('cases_'+s,0)} cases"
    if len(total.sets.get("rechunk_out_layouts", ())) < 2:
        return "rechunker never produced different numbers of output chunks"
