"""C03 - save -> load round trip returns the same rows, ranges and consistent metadata."""
import glob, itertools, json, os, warnings
import numpy as np
import strax
from vlib.runner import Result
from vlib import smallscope as ss, graphs as g, ctxrun, vsched, explore

ID = "C03"
LEVEL = "exploration"
RULE = (
    "every sorted interval array of <=N rows on a 0..G grid (overlaps allowed) x every law-abiding chunk sequence (incl. empty "
    "and zero-duration chunks) x dtype {time+endtime titled, time+dt+length, +array field, untitled+float} x compressor "
    "{blosc,zstd,lz4,bz2} x save-rechunk {off, target 1 row, 2 rows, default} x {serial, thread-pool saving} x load "
    "{plain, executor, rechunk-on-load} written with the real FileSaver.save_from and read with the real loader; oracle: rows "
    "bit-identical in order, same overall range, contiguous chunks, boundaries equal the written ones (no rechunk) or in "
    "row-free gaps / written boundaries (rechunk), metadata <-> files (n, nbytes, start/end, first/last times, run id, "
    "filesize, filenames, overall start/end, writing_ended, no exception, no temp dir). thorough: all completion orders of "
    "pool writes (schedule exploration). non-trivial: >=1 row and >=2 written chunks; distinct by input and configuration."
)
ASSUMPTIONS = ["small scope: <=3-4 rows on a 6-point grid (unit 600 ns)", "dtype x compressor x executor rotate over inputs in the quick tier (every pair occurs); thorough takes the full product on <=3 rows"]
BOUNDS = {"quick": "rows<=3 grid 0..5", "thorough": "rows<=4 grid 0..5 rotating + rows<=3 full product; pool completion orders explored (delay bound 2)"}

U = 600
DTYPES = dict(end=ss.DT_END, dtlen=ss.DT_DTLEN, arr=ss.DT_ARR, notitle=ss.DT_NOTITLE)
COMPRESSORS = ("blosc", "zstd", "lz4", "bz2")
RECHUNK = (None, 1, 2, 0)  # None: off; n: target n rows; 0: default (huge)
LOADS = ("plain", "executor", "rechunk1", "rechunk2", "rechunk1+executor")


def write_and_read(res, iv, bounds, dname, comp, rc, pool, load, sched_runner=None):
    case = dict(iv=iv, bounds=bounds, dtype=dname, compressor=comp, rechunk=rc, pool=pool, load=load)
    dtype = DTYPES[dname]
    d = ctxrun.fresh_dir("c03")
    sf = strax.DataDirectory(d)
    lineage = {"dat": ("Plug", "0.0", {})}
    key = strax.DataKey("0", "dat", lineage)
    tmb = (rc * dtype.itemsize + 1) / 1e6 if rc else strax.DEFAULT_CHUNK_SIZE_MB
    chunks = ss.mk_chunks(iv, bounds, dtype, data_type="dat", data_kind="kk", scale=U, target_size_mb=tmb)
    rows = ss.mk_rows(iv, dtype, scale=U)
    md = dict(run_id="0", data_type="dat", data_kind="kk", dtype=dtype, lineage_hash=key.lineage_hash, compressor=comp, lineage=lineage, chunk_target_size_mb=tmb)

    def do_save():
        saver = sf.saver(key, md, saver_timeout=3600)
        ex = vsched.VExecutor(max_workers=2) if pool else None
        saver.save_from(iter(chunks), rechunk=rc is not None, executor=ex)
        if ex:
            ex.shutdown(wait=True)
        return saver

    def do_load():
        ex = vsched.VExecutor(max_workers=2) if load.endswith("executor") else None
        kw = {}
        if load.startswith("rechunk"):
            kw = dict(rechunk=True, source_size_mb=(int(load[7]) * dtype.itemsize + 1) / 1e6)
        out = []
        for c in sf.loader(key, executor=ex, **kw):
            if not isinstance(c, strax.Chunk):
                c = c.result()
            out.append(c)
        if ex:
            ex.shutdown(wait=True)
        return out

    try:
        saver = (sched_runner or ctxrun.run_controlled)(do_save) if pool else do_save()
    except ctxrun.Deadlock as e:
        res.violation("save:deadlock", str(e), case)
        return
    except Exception as e:
        res.violation("save:" + ctxrun.exc_fp(e, 3), f"saving valid chunks raised {type(e).__name__}: {e}"[:300], case)
        return
    # ---------------- metadata <-> files
    dirname = os.path.join(d, str(key))
    if os.path.exists(dirname + "_temp") or not os.path.isdir(dirname):
        res.violation("md:dir", "temp directory left behind or final directory missing", case)
        return
    mdj = json.load(open(os.path.join(dirname, "dat-%s-metadata.json" % key.lineage_hash)))
    if "writing_ended" not in mdj or "exception" in mdj:
        res.violation("md:completion", f"writing_ended missing or exception present: {mdj.get('exception')}"[:200], case)
    files = sorted(f for f in os.listdir(dirname) if not f.endswith("metadata.json"))
    want_files = sorted(c["filename"] for c in mdj["chunks"] if c["n"] > 0)
    if files != want_files:
        res.violation("md:files", f"files {files} != metadata filenames {want_files}", case)
    if mdj["chunks"]:
        if mdj.get("start") != mdj["chunks"][0]["start"] or mdj.get("end") != mdj["chunks"][-1]["end"]:
            res.violation("md:overall-range", f"top-level start/end {mdj.get('start')},{mdj.get('end')} != chunks", case)
    if [c["chunk_i"] for c in mdj["chunks"]] != list(range(len(mdj["chunks"]))):
        res.violation("md:chunk-order", f"chunk_i sequence {[c['chunk_i'] for c in mdj['chunks']]}", case)
    pos = 0
    for c in mdj["chunks"]:
        seg = rows[pos : pos + c["n"]]
        pos += c["n"]
        bad = None
        if c["nbytes"] != seg.nbytes:
            bad = f"nbytes {c['nbytes']} != {seg.nbytes}"
        elif c["run_id"] != "0":
            bad = f"run_id {c['run_id']}"
        elif c["n"] and (c["first_time"] != seg[0]["time"] or c["last_endtime"] != strax.endtime(seg)[-1] or c["last_time"] != seg[-1]["time"] or c["first_endtime"] != strax.endtime(seg)[0]):
            bad = "first/last time fields"
        elif c["n"] and (seg["time"].min() < c["start"] or strax.endtime(seg).max() > c["end"]):
            bad = "rows outside chunk start/end"
        elif c["n"] and "filesize" in c and c["filesize"] != os.path.getsize(os.path.join(dirname, c["filename"])):
            bad = f"filesize {c['filesize']} != file on disk"
        elif c["n"] and not pool and "filesize" not in c:
            bad = "filesize missing on the serial path"
        if bad:
            res.violation("md:chunk-field", f"chunk {c['chunk_i']}: {bad}", case)
            break
    if pos != len(rows):
        res.violation("md:row-count", f"metadata accounts for {pos} rows, wrote {len(rows)}", case)
    # ---------------- load
    try:
        got = (ctxrun.run_controlled(do_load) if load.endswith("executor") else do_load())
    except Exception as e:
        res.violation(f"load:{load}:" + ctxrun.exc_fp(e, 3), f"loading raised {type(e).__name__}: {e}"[:300], case)
        return
    m = ctxrun.tiling_violation(got)
    if m:
        res.violation("load:tiling", m, case)
    allrows = np.concatenate([c.data for c in got]) if got else rows[:0]
    if allrows.dtype != rows.dtype or not np.array_equal(allrows, rows):
        res.violation("load:rows", "loaded rows differ from the written rows", case)
    if got and (got[0].start != chunks[0].start or got[-1].end != chunks[-1].end):
        res.violation("load:range", f"overall range [{got[0].start},{got[-1].end}) != written [{chunks[0].start},{chunks[-1].end})", case)
    wb = [c.start for c in chunks] + [chunks[-1].end]
    gb = [c.start for c in got] + [got[-1].end] if got else []
    if rc is None and load in ("plain", "executor"):
        if gb != wb:
            res.violation("load:boundaries", f"boundaries {gb} != written {wb} without rechunking", case)
    else:
        for t in gb:
            if t in wb:
                continue
            if any(a * U < t < b * U for a, b in iv):
                res.violation("load:boundary-in-row", f"boundary {t} cuts a row", case)
                break
    res.add_set("n_loaded_chunks", len(got))
    if rc is not None and len(got) != len(chunks):
        res.count("rechunk_changed_layout")


def rotations(i):
    """dtype/compressor/pool/load rotate with the input index so that all pairs occur"""
    dn = list(DTYPES)[i % 4]
    comp = COMPRESSORS[(i // 4) % 4]
    pool = (i // 16) % 2 == 1
    load = LOADS[(i // 32) % len(LOADS)]
    return dn, comp, pool, load


def plan(tier, seed):
    NS = 16 if tier == "quick" else 64
    jobs = [("rot", sh, NS, tier, seed) for sh in range(NS)]
    jobs += [("wide", sh, 4, tier, seed) for sh in range(4)]
    if tier == "thorough":
        jobs += [("full", sh, NS, tier, seed) for sh in range(NS)]
        jobs += [("sched", k, 0, tier, seed) for k in range(6)]
    return jobs


def worker_init():
    vsched.install()
    g.quiet()


WIDE = (
    ((0, 1), (3, 4), (6, 7), (9, 10)),
    ((0, 1), (3, 4), (6, 7), (9, 10), (12, 13)),
    ((0, 2), (4, 5), (7, 9), (11, 12), (12, 13), (15, 16)),
    ((0, 1), (1, 2), (4, 6), (5, 7), (9, 10), (12, 13)),
)

SCHED_CASES = [
    (((0, 1), (2, 3), (4, 5)), (0, 2, 4, 6), "end", "blosc", None),
    (((0, 1), (2, 3), (4, 5)), (0, 2, 4, 6), "dtlen", "zstd", 1),
    (((0, 2), (1, 3), (5, 6)), (0, 4, 6), "arr", "lz4", 1),
    (((0, 1), (1, 2), (4, 5), (5, 6)), (0, 1, 3, 6), "end", "bz2", 2),
    (((0, 1),), (0, 0, 3), "notitle", "blosc", None),
    (((0, 1), (3, 4)), (0, 2, 2, 5), "end", "blosc", 1),
]


class SaveSched(explore.Harness):
    def __init__(self, a):
        self.a = a
        self.r = Result()

    def main(self):
        iv, b, dn, comp, rc = self.a
        write_and_read(self.r, iv, b, dn, comp, rc, True, "plain", sched_runner=lambda f: f())

    def final(self, s):
        if self.r.violations:
            v = self.r.violations[0]
            return v["fingerprint"], v["fingerprint"] + " :: " + v["what"]
        return "ok", None


def run_job(job):
    kind, sh, ns, tier, seed = job
    res = Result()
    maxn, G = (3, 5) if (tier == "quick" or kind == "full") else (4, 5)
    if kind == "sched":
        a = SCHED_CASES[sh]
        r = explore.explore(lambda: SaveSched(a), regime="delay", bound=2, hashing=False, max_execs=30000)
        res.evals += r.executions
        res.count("sched_executions", r.executions)
        res.nt("sched", a)
        if r.cap_hit:
            res.caps_hit.append(r.cap_hit)
        for k, msg, choices in r.violations[:3]:
            res.violation("sched:" + msg.split(" :: ")[0], msg[:300], dict(sched_case=a, choices=choices))
        return res
    if kind == "wide":
        # 4-6 rows separated by gaps the rechunker may cut in (>= 2 grid steps = 1200 ns > DEFAULT_CHUNK_SPLIT_NS), stored in
        # one to three chunks: one Rechunker.receive() / one rechunk-on-load of a stored chunk makes SEVERAL cuts
        i = -1
        with warnings.catch_warnings():
            warnings.simplefilter("ignore")
            for iv in WIDE:
                gaps = [(iv[k][1] + iv[k + 1][0]) // 2 for k in range(len(iv) - 1) if iv[k + 1][0] - iv[k][1] >= 2]
                cutsets = [()] + [(c,) for c in gaps] + [(gaps[0], gaps[-1])]
                for cuts in cutsets:
                    bounds = (0,) + tuple(sorted(set(cuts))) + (iv[-1][1] + 1,)
                    for dn in DTYPES:
                        for rc in (None, 1, 2, 3):
                            for load in LOADS + ("rechunk3",):
                                i += 1
                                if i % ns != sh:
                                    continue
                                comp = COMPRESSORS[(i // ns + seed) % 4]
                                pool = (i // ns) % 3 == 1
                                res.evals += 1
                                res.nt("wide", iv, bounds, dn, comp, rc, pool, load)
                                res.count("wide_cases")
                                write_and_read(res, iv, bounds, dn, comp, rc, pool, load)
        return res
    i = -1
    with warnings.catch_warnings():
        warnings.simplefilter("ignore")
        for iv in ss.interval_sets_upto(maxn, 0, G, min_len=1):
            lo = iv[0][0] if iv else 0
            hi = max(b for a, b in iv) if iv else 1
            for S, E in sorted({(lo, hi), (0, G + 1)}):
                for bounds in ss.chunkings(iv, S, E, zero_dur=len(iv) <= 2):
                    i += 1
                    if i % ns != sh:
                        continue
                    if kind == "rot":
                        dn, comp, pool, load = rotations(i // ns + seed)
                        jj = i // ns + seed
                        combos = [(dn, comp, RECHUNK[(jj + k) % 4], pool, load) for k in (0, 2)]  # two of the four rechunk settings, rotating
                    else:
                        j = i // ns
                        combos = [(dn, comp, RECHUNK[(j + k) % 4], (j + k) % 2 == 1, LOADS[(j + k2) % len(LOADS)]) for k, dn in enumerate(DTYPES) for k2, comp in enumerate(COMPRESSORS)]
                    for dn, comp, rc, pool, load in combos:
                        res.evals += 1
                        if iv and len(bounds) > 2:
                            res.nt(iv, bounds, dn, comp, rc, pool, load)
                        res.add_set("config_pairs", (dn, comp, pool, load))
                        write_and_read(res, iv, bounds, dn, comp, rc, pool, load)
                    if i % 997 == 0:
                        res.sample(dict(iv=iv, bounds=bounds, unit_ns=U, combos=combos[:2]), cap=2)
    return res


def replay(case):
    worker_init()
    res = Result()
    tup = lambda x: tuple(tup(y) for y in x) if isinstance(x, list) else x
    if "sched_case" in case:
        a = tup(case["sched_case"])
        h, s, info = explore.replay(lambda: SaveSched(a), case["choices"])
        k, v = h.final(s)
        return [dict(fingerprint="sched:" + str(k), what=v)] if v else []
    write_and_read(res, tup(case["iv"]), tup(case["bounds"]), case["dtype"], case["compressor"], case["rechunk"], case["pool"], case["load"])
    return res.violations


def sanity(total, tier):
    if len(total.sets.get("config_pairs", ())) < 40:
        return f"only {len(total.sets.get('config_pairs', ()))} distinct (dtype, compressor, pool, load) combinations"
    if total.counters.get("wide_cases", 0) < 1000:
        return "fewer than 1000 wide-gap cases"
    if max(total.sets.get("n_loaded_chunks", (0,))) < 4:
        return "no load ever returned four or more chunks"
    if total.counters.get("rechunk_changed_layout", 0) < 10:
        return "rechunking almost never changed the layout"
