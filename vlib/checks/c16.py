"""C16 - copying, rechunking, recompressing and per-chunk merging preserve the data."""
import filecmp, itertools, json, os, shutil, warnings
import numpy as np
import strax
from vlib.runner import Result
from vlib import graphs as g, ctxrun, vsched, smallscope as ss, explore

ID = "C16"
LEVEL = "exploration"
RULE = (
    "stored layouts (every disjoint row set of <=3 rows x every law-abiding chunking, also with doubled coordinates, plus five "
    "layouts of 4-5 widely spaced rows so that one stored chunk is cut into >=3 pieces; made through a real Context) x "
    "{copy_to_frontend (target compressor x rechunk on/off x target size x {one named target frontend, every writable frontend}), stand-alone strax.rechunker (compressor x target "
    "size x parallel {False, 'thread', 'process' under the controlled scheduler: default schedule, and every schedule with <=1 delay for selected layouts} x replace x dest), rechunk_on_load (source size 1,2 rows x "
    "executor on/off), per-chunk make for every grouping of the dependency's chunks into consecutive jobs followed by "
    "merge_per_chunk_storage (both processors), with partial merges of {all but the first job, all but the last, first+last} in between (>=3 jobs): "
    "partial data has its own key and rows and is never reported as the complete data type}; oracle: the result loads to exactly the rows of the source / of the directly "
    "made data, destination metadata agrees with the destination files (chunk n, nbytes, start/end, first/last times, "
    "filenames, overall range, compressor, no exception, writing_ended), loaded chunks tile the same overall range, and the "
    "source directory is byte-identical afterwards unless replace was requested. non-trivial: >=2 stored chunks and >=1 row; "
    "distinct by (layout, operation, parameters)."
)
ASSUMPTIONS = [
    "small scope: <=3 rows on a 6-point grid (unit 600 ns so that 1 step < 1000 ns < 2 steps)",
    "parallel='process' (real OS processes) is outside the scheduler: exercised in-process with the controlled executor only",
    "operation parameters rotate over layouts in the quick tier; thorough takes the full product",
]
BOUNDS = {"quick": "rows<=3 grid 0..5, one rotating parameter combination per (layout, operation)", "thorough": "rows<=3 grid 0..5, full parameter product; thread-mode rechunker explored over schedules (delay bound 1) for 4 layouts"}
RUN = "0"
U = g.SCALE
COMPS = ("blosc", "zstd", "lz4", "bz2")


def md_vs_files(res, dirname, rows, case, tag):
    """destination metadata <-> files"""
    try:
        prefix = strax.storage.files.dirname_to_prefix(dirname)
        md = json.load(open(os.path.join(dirname, f"{prefix}-metadata.json")))
    except Exception as e:
        res.violation(f"{tag}:no-metadata", f"{type(e).__name__}: {e}"[:200], case)
        return None
    if "writing_ended" not in md or "exception" in md:
        res.violation(f"{tag}:md-completion", "writing_ended missing or exception recorded", case)
    files = sorted(f for f in os.listdir(dirname) if not f.endswith("metadata.json"))
    want = sorted(c["filename"] for c in md["chunks"] if c["n"] > 0)
    if files != want:
        res.violation(f"{tag}:md-files", f"files {files} != metadata {want}", case)
    if md["chunks"] and (md.get("start") != md["chunks"][0]["start"] or md.get("end") != md["chunks"][-1]["end"]):
        res.violation(f"{tag}:md-range", "top-level start/end != first/last chunk", case)
    pos = 0
    for c in md["chunks"]:
        seg = rows[pos : pos + c["n"]]
        pos += c["n"]
        if c["nbytes"] != seg.nbytes or (c["n"] and (c["first_time"] != seg[0]["time"] or c["last_endtime"] != strax.endtime(seg)[-1])) or (
            c["n"] and (seg["time"].min() < c["start"] or strax.endtime(seg).max() > c["end"])
        ):
            res.violation(f"{tag}:md-chunk", f"chunk {c['chunk_i']} metadata inconsistent with its rows", case)
            break
        if c["n"] and "filesize" in c and c["filesize"] != os.path.getsize(os.path.join(dirname, c["filename"])):
            res.violation(f"{tag}:md-filesize", f"chunk {c['chunk_i']} filesize field != file", case)
            break
    if pos != len(rows):
        res.violation(f"{tag}:md-rowcount", f"metadata accounts for {pos} of {len(rows)} rows", case)
    return md


def snapshot(d):
    out = {}
    for root, _, files in os.walk(d):
        for f in files:
            p = os.path.join(root, f)
            out[os.path.relpath(p, d)] = open(p, "rb").read()
    return out


class Setup:
    """a chain2 graph stored with the given layout"""

    def __init__(self, iv, bounds, rechunk_on_load=None):
        self.spec = g.catalogue()["chain2"]
        self.sources = {"src": dict(iv=iv, bounds=bounds)}
        self.world = g.World(self.spec, self.sources)
        attrs = {n["name"]: dict(rechunk_on_save=False) for n in self.spec}
        if rechunk_on_load:
            for n in attrs:
                attrs[n].update(rechunk_on_load=True, chunk_source_size_mb=g.target_size_rows(rechunk_on_load, n))
        self.classes = g.make_classes(self.spec, self.world, attrs)
        self.ref = g.reference(self.spec, self.sources)
        self.base = ctxrun.fresh_dir("c16")
        self.d1 = os.path.join(self.base, "a")
        self.d2 = os.path.join(self.base, "b")

    def ctx(self, storage, **kw):
        return strax.Context(storage=storage, register=self.classes, **dict(g.CTX_DEFAULTS, **kw))

    def make_all(self):
        st = self.ctx([strax.DataDirectory(self.d1)])
        st.make(RUN, "mp", processor="single_thread", progress_bar=False)
        return st


def load_rows(st, t, proc="single_thread", **kw):
    f = lambda: list(st.get_iter(RUN, t, processor=proc, progress_bar=False, **kw))
    with warnings.catch_warnings():
        warnings.simplefilter("ignore")
        return ctxrun.run_controlled(f)


def check_copy(res, iv, bounds, comp, rechunk, tr, two_targets=False):
    case = dict(op="copy", iv=iv, bounds=bounds, compressor=comp, rechunk=rechunk, target_rows=tr, two_targets=two_targets)
    s = Setup(iv, bounds)
    s.make_all()
    before = snapshot(s.d1)
    d3 = os.path.join(s.base, "c")
    # two_targets: no target id given -> the data must arrive in EVERY writable frontend that does not have it yet
    st = s.ctx([strax.DataDirectory(s.d1, readonly=True), strax.DataDirectory(s.d2)] + ([strax.DataDirectory(d3)] if two_targets else []))
    try:
        for t in ("src", "mp"):
            st.copy_to_frontend(RUN, t, target_frontend_id=None if two_targets else 1, target_compressor=comp, rechunk=rechunk, rechunk_to_mb=g.target_size_rows(tr, t) if tr else strax.DEFAULT_CHUNK_SIZE_MB)
    except Exception as e:
        res.violation("copy:" + ctxrun.exc_fp(e, 3), f"copy_to_frontend raised {type(e).__name__}: {e}"[:300], case)
        return
    if snapshot(s.d1) != before:
        res.violation("copy:source-changed", "source directory changed by copy_to_frontend", case)
    for dest in [s.d2] + ([d3] if two_targets else []):
        check_copy_dest(res, s, dest, bounds, comp, rechunk, tr, case)
    if two_targets:
        res.count("copies_to_two_targets")


def check_copy_dest(res, s, dest, bounds, comp, rechunk, tr, case):
    st2 = s.ctx([strax.DataDirectory(dest)], forbid_creation_of=("src", "mp"))
    for t in ("src", "mp"):
        try:
            ch = load_rows(st2, t)
        except Exception as e:
            res.violation("copy:load:" + ctxrun.exc_fp(e, 3), f"{t}: {type(e).__name__}: {e}"[:300], case)
            continue
        if not ctxrun.rows_equal(ctxrun.concat(ch), s.ref[t]):
            res.violation("copy:rows", f"copied {t} loads to different rows", case)
        m = ctxrun.tiling_violation(ch)
        if m or ch[0].start != bounds[0] * U or ch[-1].end != bounds[-1] * U:
            res.violation("copy:range", f"{t}: {m or 'overall range changed'}", case)
        key = st2.key_for(RUN, t)
        md = md_vs_files(res, os.path.join(dest, str(key)), s.ref[t], case, "copy")
        if md and comp and md["compressor"] != comp:
            res.violation("copy:compressor", f"destination metadata says {md['compressor']}, requested {comp}", case)
        res.add_set("copy_nchunks", len(ch))
        if rechunk:
            res.add_set("copy_rechunked_nchunks", (tr, len(ch)))


def check_rechunker(res, iv, bounds, comp, tr, parallel, replace, sched_runner=None):
    case = dict(op="rechunker", iv=iv, bounds=bounds, compressor=comp, target_rows=tr, parallel=parallel, replace=replace)
    s = Setup(iv, bounds)
    st = s.make_all()
    before = snapshot(s.d1)
    key = st.key_for(RUN, "mp")
    srcdir = os.path.join(s.d1, str(key))
    os.makedirs(s.d2, exist_ok=True)
    kw = dict(source_directory=srcdir, dest_directory=None if replace else s.d2, replace=replace, compressor=comp,
              target_size_mb=g.target_size_rows(tr, "mp") if tr else None, rechunk=True, progress_bar=True, parallel=parallel, max_workers=2)  # progress_bar=False crashes (disabled tqdm has no start_t): outside the quantifier
    try:
        with warnings.catch_warnings():
            warnings.simplefilter("ignore")
            (sched_runner or ctxrun.run_controlled)(lambda: strax.rechunker(**kw))
    except ctxrun.Deadlock as e:
        res.violation("rechunker:deadlock", str(e), case)
        return
    except Exception as e:
        res.violation("rechunker:" + ctxrun.exc_fp(e, 3), f"strax.rechunker raised {type(e).__name__}: {e}"[:300], case)
        return
    after = snapshot(s.d1)
    if not replace:
        if after != before:
            res.violation("rechunker:source-changed", "source directory changed although replace=False", case)
        dest = os.path.join(s.d2, str(key))
        st2 = s.ctx([strax.DataDirectory(s.d2)], forbid_creation_of=("src", "mp"))
    else:
        others = {k: v for k, v in before.items() if not k.startswith(str(key))}
        if {k: v for k, v in after.items() if not k.startswith(str(key))} != others:
            res.violation("rechunker:other-data-changed", "replace=True altered another data type's directory", case)
        dest = srcdir
        st2 = s.ctx([strax.DataDirectory(s.d1)], forbid_creation_of=("src", "mp"))
    try:
        ch = load_rows(st2, "mp")
    except Exception as e:
        res.violation("rechunker:load:" + ctxrun.exc_fp(e, 3), f"{type(e).__name__}: {e}"[:300], case)
        return
    if not ctxrun.rows_equal(ctxrun.concat(ch), s.ref["mp"]):
        res.violation("rechunker:rows", "rechunked data loads to different rows", case)
    m = ctxrun.tiling_violation(ch)
    if m or ch[0].start != bounds[0] * U or ch[-1].end != bounds[-1] * U:
        res.violation("rechunker:range", f"{m or 'overall range changed'}", case)
    md = md_vs_files(res, dest, s.ref["mp"], case, "rechunker")
    if md and comp and md["compressor"] != comp:
        res.violation("rechunker:compressor", f"metadata says {md['compressor']}, requested {comp}", case)
    res.add_set("rechunker_nchunks", (tr, len(ch)))


def check_rechunk_on_load(res, iv, bounds, size_rows, workers):
    case = dict(op="rechunk_on_load", iv=iv, bounds=bounds, source_rows=size_rows, workers=workers)
    s = Setup(iv, bounds, rechunk_on_load=size_rows)
    s.make_all()
    st = s.ctx([strax.DataDirectory(s.d1)], forbid_creation_of=("src", "mp"))
    for t in ("src", "mp"):
        try:
            ch = load_rows(st, t, proc="threaded_mailbox" if workers else "single_thread", max_workers=workers)
        except Exception as e:
            res.violation("rechunk_on_load:" + ctxrun.exc_fp(e, 3), f"{t}: {type(e).__name__}: {e}"[:300], case)
            continue
        if not ctxrun.rows_equal(ctxrun.concat(ch), s.ref[t]):
            res.violation("rechunk_on_load:rows", f"{t} loads to different rows", case)
        m = ctxrun.tiling_violation(ch)
        if m or ch[0].start != bounds[0] * U or ch[-1].end != bounds[-1] * U:
            res.violation("rechunk_on_load:range", f"{t}: {m or 'overall range changed'}", case)
        res.add_set("rol_nchunks", len(ch))


def groupings(n):
    """all ways of grouping chunk numbers 0..n-1 into consecutive jobs"""
    for parts in ss.partitions_contiguous(n):
        yield [list(range(a, b)) for a, b in parts]


def check_per_chunk(res, iv, bounds, groups, proc, rechunk):
    case = dict(op="per_chunk", iv=iv, bounds=bounds, groups=groups, processor=proc, rechunk=rechunk)
    s = Setup(iv, bounds)
    st = s.ctx([strax.DataDirectory(s.d1)])
    try:
        with warnings.catch_warnings():
            warnings.simplefilter("ignore")
            ctxrun.run_controlled(lambda: st.make(RUN, "src", processor=proc, progress_bar=False))
            for grp in groups:
                ctxrun.run_controlled(lambda: st.make(RUN, "mp", chunk_number={"src": grp}, processor=proc, progress_bar=False))
            if st.is_stored(RUN, "mp") and len(groups) > 1:
                res.violation("per_chunk:premature", "mp reported stored before merging the per-chunk results", case)
            # multi-step merging: a merge of only SOME of the jobs is partial data under its own key, never the complete data type
            # (a merge of ONE job is not a merge: that job's data already sits under the same key)
            if len(groups) >= 3:
                subsets = [groups[1:], groups[:-1], [groups[0], groups[-1]]]
                rows_of = ss.assign_rows(iv, bounds)
                subsets = [S for k, S in enumerate(subsets) if S not in subsets[:k]]
                for S in subsets:
                    comb = [c for gr in S for c in gr]
                    if sorted(comb) == list(range(len(bounds) - 1)):
                        continue
                    consecutive = sorted(comb) == list(range(min(comb), max(comb) + 1))
                    try:
                        s.ctx([strax.DataDirectory(s.d1)]).merge_per_chunk_storage(RUN, "mp", "src", chunk_number_group=S, rechunk=rechunk)
                    except ValueError:
                        if consecutive:
                            raise
                        # chunk numbers must be consecutive: rejecting first+last is fine, storing it as complete data is not
                        res.count("non_consecutive_rejected")
                    stp = s.ctx([strax.DataDirectory(s.d1)])
                    if stp.is_stored(RUN, "mp"):
                        res.violation("per_chunk:partial-stored-as-complete", f"after merging only the jobs {S} of {groups}, mp is reported stored as the complete data type", case)
                        return
                    if not consecutive:
                        continue
                    want = [i for c in comb for i in rows_of[c]]
                    got = ctxrun.run_controlled(lambda: stp.get_array(RUN, "mp", chunk_number={"src": comb}, processor=proc, progress_bar=False))
                    if sorted(got["rid"].tolist()) != sorted(want) or not stp.is_stored(RUN, "mp", chunk_number={"src": comb}):
                        res.violation("per_chunk:partial-rows", f"partial merge of jobs {S}: rows {got['rid'].tolist()} expected source rows {want}", case)
                        return
                    res.count("partial_merges")
            st.merge_per_chunk_storage(RUN, "mp", "src", chunk_number_group=groups, rechunk=rechunk)
    except Exception as e:
        res.violation("per_chunk:" + ctxrun.exc_fp(e, 3), f"{type(e).__name__}: {e}"[:300], case)
        return
    st2 = s.ctx([strax.DataDirectory(s.d1)], forbid_creation_of=("mp",))
    try:
        if not st2.is_stored(RUN, "mp"):
            res.violation("per_chunk:not-stored", "merged data not stored", case)
            return
        ch = load_rows(st2, "mp")
    except Exception as e:
        res.violation("per_chunk:load:" + ctxrun.exc_fp(e, 3), f"{type(e).__name__}: {e}"[:300], case)
        return
    if not ctxrun.rows_equal(ctxrun.concat(ch), s.ref["mp"]):
        res.violation("per_chunk:rows", f"merged per-chunk data differs from the directly made data: rids {ctxrun.concat(ch)['rid'].tolist()} vs {s.ref['mp']['rid'].tolist()}", case)
    m = ctxrun.tiling_violation(ch)
    if m or ch[0].start != bounds[0] * U or ch[-1].end != bounds[-1] * U:
        res.violation("per_chunk:range", f"{m or 'overall range differs from the directly made data'} ({ch[0].start}-{ch[-1].end})", case)
    md_vs_files(res, os.path.join(s.d1, str(st2.key_for(RUN, "mp"))), s.ref["mp"], case, "per_chunk")
    res.count("per_chunk_groupings")


def layouts(maxn=3, G=5):
    for iv in ss.interval_sets_upto(maxn, 0, G, min_len=1, disjoint=True):
        for b in ss.chunkings(iv, 0, G + 1, zero_dur=len(iv) <= 1):
            yield iv, b


# layouts with 4-5 rows and every gap above the rechunker's minimum split gap: ONE Rechunker.receive() then returns several
# chunks (a stored chunk larger than twice the target), which is where the saver's per-chunk bookkeeping can go wrong
MANY = ((0, 2), (4, 6), (8, 10), (12, 14), (16, 18))
MANY_LAYOUTS = [(MANY, (0, 20)), (MANY, (0, 8, 20)), (MANY[:4], (0, 16)), (MANY, (0, 3, 20)), (MANY, (0, 12, 12, 20))]


def plan(tier, seed):
    NS = 32 if tier == "quick" else 128
    jobs = [("enum", sh, NS, tier, seed) for sh in range(NS)]
    jobs += [("many", k, 0, tier, seed) for k in range(len(MANY_LAYOUTS))]
    if tier == "thorough":
        jobs += [("sched", k, 0, tier, seed) for k in range(len(SCHED_LAYOUTS))]
    else:
        jobs += [("sched", k, 0, tier, seed) for k in (0, 4, 5)]
    return jobs


def worker_init():
    vsched.install()
    g.quiet()
    import strax.storage.files as F, strax.storage.file_rechunker as FR

    F.print = lambda *a, **k: None
    FR.print = lambda *a, **k: None
    FR.ProcessPoolExecutor = vsched.VExecutor
    vsched.install_fs_points()
    import functools

    if not isinstance(strax.utils.tqdm, functools.partial):
        strax.utils.tqdm = functools.partial(strax.utils.tqdm, file=open(os.devnull, "w"))


SCHED_LAYOUTS = [(((0, 1), (2, 3), (4, 5)), (0, 2, 4, 5)), (((0, 2), (2, 3)), (0, 2, 5)), (((1, 2),), (0, 1, 3, 5)), (((0, 1), (1, 2), (4, 5)), (0, 1, 3, 5)),
                 (MANY, (0, 20)), (MANY, (0, 8, 20))]


class RH(explore.Harness):
    def __init__(self, lay):
        self.lay = lay
        self.r = Result()

    def main(self):
        check_rechunker(self.r, self.lay[0], self.lay[1], "zstd", 1, "thread", False, sched_runner=lambda f: f())

    def final(self, s):
        if self.r.violations:
            v = self.r.violations[0]
            return v["fingerprint"], v["fingerprint"] + " :: " + v["what"]
        return "ok", None


def run_job(job):
    kind, sh, ns, tier, seed = job
    res = Result()
    if kind == "many":
        iv, b = MANY_LAYOUTS[sh]
        for comp in (None, "zstd"):
            for tr in (1, 2):
                for par in (False, "thread", "process"):
                    for rep in (False, True):
                        res.evals += 1
                        res.nt("many", sh, comp, tr, par, rep)
                        check_rechunker(res, iv, b, comp, tr, par, rep)
                for tt in (False, True):
                    res.evals += 1
                    res.nt("many-copy", sh, comp, tr, tt)
                    check_copy(res, iv, b, comp or "blosc", True, tr, tt)
        for rol in (1, 2):
            for w in (None, 2):
                res.evals += 1
                check_rechunk_on_load(res, iv, b, rol, w)
        return res
    if kind == "sched":
        lay = SCHED_LAYOUTS[sh]
        # (file operations of the pool writers are scheduling points: see vsched.install_fs_points)
        r = explore.explore(lambda: RH(lay), regime="delay", bound=1 if tier == "quick" else 2, hashing=False, max_execs=20000)
        if r.cap_hit:
            res.caps_hit.append(f"sched layout {sh}: {r.cap_hit}")
        res.evals += r.executions
        res.count("sched_executions", r.executions)
        for k, msg, choices in r.violations[:2]:
            res.violation("sched:" + msg.split(" :: ")[0], msg[:300], dict(op="rechunker-sched", layout=lay, choices=choices))
        return res
    i = -1
    for iv, b in layouts():
        i += 1
        if i % ns != sh:
            continue
        j = i // ns + seed
        nchunks = len(b) - 1
        if tier == "quick":
            copies = [(COMPS[j % 4], bool((j // 4) % 2), (1, 2, 0)[(j // 8) % 3], bool((j // 5) % 2))]
            rcs = [(COMPS[(j + 1) % 4] if j % 3 else None, (1, 2, 0)[j % 3], (False, "thread", "process")[(j // 3) % 3], bool((j // 9) % 2))]
            rols = [((1, 2)[j % 2], (None, 2)[(j // 2) % 2])]
            grps = [gr for k, gr in enumerate(groupings(nchunks)) if (k + j) % 3 == 0] if nchunks <= 4 else []
        else:
            copies = [(c, r, t, tt) for c in COMPS for r in (False, True) for t in (1, 2, 0) for tt in (False, True)]
            rcs = [(c, t, p, rp) for c in (None, "zstd", "bz2") for t in (1, 2, 0) for p in (False, "thread", "process") for rp in (False, True)]
            rols = [(a, w) for a in (1, 2) for w in (None, 2)]
            grps = list(groupings(nchunks)) if nchunks <= 4 else []
        nt = bool(iv) and nchunks >= 2
        # the same layout with doubled coordinates: every gap between rows then exceeds the rechunker's minimum split gap
        # (1000 ns), so the rechunking paths really produce several output chunks
        iv2, b2 = tuple((2 * a, 2 * e) for a, e in iv), tuple(2 * x for x in b)
        for c in copies:
            res.evals += 1
            if nt:
                res.nt("copy", iv, b, c)
            check_copy(res, iv, b, *c)
            if c[1] and len(iv) >= 2:
                res.evals += 1
                res.nt("copy2", iv, b, c)
                check_copy(res, iv2, b2, *c)
        for c in rcs:
            res.evals += 1
            if nt:
                res.nt("rechunker", iv, b, c)
            check_rechunker(res, iv, b, *c)
            if len(iv) >= 2:
                res.evals += 1
                res.nt("rechunker2", iv, b, c)
                check_rechunker(res, iv2, b2, *c)
        for c in rols:
            res.evals += 1
            if nt:
                res.nt("rol", iv, b, c)
            check_rechunk_on_load(res, iv, b, *c)
        for k, gr in enumerate(grps):
            res.evals += 1
            if nt:
                res.nt("perchunk", iv, b, tuple(map(tuple, gr)))
            check_per_chunk(res, iv, b, gr, ("single_thread", "threaded_mailbox")[(k + j) % 2], bool((k + j // 2) % 2))
        if i % 211 == 0:
            res.sample(dict(rows=iv, chunk_bounds=b, unit_ns=U, copy=copies[:1], rechunker=rcs[:1], rechunk_on_load=rols[:1], per_chunk_groupings=grps[:2]), cap=2)
    return res


def replay(case):
    worker_init()
    res = Result()
    tup = lambda x: tuple(tup(y) for y in x) if isinstance(x, list) else x
    iv, b = tup(case.get("iv", ())), tup(case.get("bounds", ()))
    op = case["op"]
    if op == "copy":
        check_copy(res, iv, b, case["compressor"], case["rechunk"], case["target_rows"], case.get("two_targets", False))
    elif op == "rechunker":
        check_rechunker(res, iv, b, case["compressor"], case["target_rows"], case["parallel"], case["replace"])
    elif op == "rechunk_on_load":
        check_rechunk_on_load(res, iv, b, case["source_rows"], case["workers"])
    elif op == "per_chunk":
        check_per_chunk(res, iv, b, case["groups"], case["processor"], case["rechunk"])
    else:
        lay = tup(case["layout"])
        h, s, info = explore.replay(lambda: RH(lay), case["choices"])
        k, v = h.final(s)
        return [dict(fingerprint="sched:" + str(k), what=v)] if v else []
    return res.violations


def sanity(total, tier):
    for k in ("copy_nchunks", "rechunker_nchunks", "rol_nchunks", "copy_rechunked_nchunks"):
        if len(total.sets.get(k, ())) < 2:
            return f"{k}: layouts never changed"
    for k in ("rechunker_nchunks", "copy_rechunked_nchunks"):
        if not any(n >= 2 for tr, n in total.sets.get(k, ())):
            return f"{k}: rechunking never produced more than one chunk"
    if total.counters.get("per_chunk_groupings", 0) < 20:
        return "too few per-chunk groupings"
    if total.counters.get("partial_merges", 0) < 50:
        return "too few partial (multi-step) merges"
    if total.counters.get("copies_to_two_targets", 0) < 20:
        return "too few copies to two target frontends"
    if not any(n >= 4 for tr, n in total.sets.get("rechunker_nchunks", ())):
        return "the rechunker never produced >= 4 chunks (multi-chunk receive not exercised)"
