"""C05 - Mailbox delivers every message exactly once, in order, to every subscriber.
Explicit-state exploration of the REAL strax.Mailbox under the controlled scheduler."""
import itertools, functools
import strax
from vlib.runner import Result
from vlib import vsched, explore, canon

ID = "C05"
LEVEL = "model_checking"
RULE = (
    "full reachable state graph (canonical-state DFS over all schedules, lock-granularity atomic steps) of harnesses on "
    "the real strax.Mailbox: H1 iterable sender + k readers; H2 explicitly numbered out-of-order sends; H3 futures "
    "completed by concurrent pool workers; H4 lazy mode with every driver mask; H5 divide_outputs feeding two mailboxes. "
    "Oracle in every terminal state: each subscriber saw exactly the sent sequence in number order, all threads finished; "
    "no deadlock state; invariant len(_mailbox)<=max_messages in every state (eager)."
)
ASSUMPTIONS = [
    "atomicity between scheduling points (all Mailbox state is accessed under its RLock; checked by a lock-discipline monitor on attribute rebinding)",
    "condition waits never time out and there are no spurious wake-ups",
    "state identity = canonical form of all thread stacks + reachable objects (vlib/canon.py); cross-checked against stateless exploration at delay bound 1",
    "'sampled beyond' in the quantifier is not covered",
]
BOUNDS = {
    "quick": "subs<=2, msgs<=3, cap<=2 full state space; selected 3-subscriber / 4-message configs",
    "thorough": "subs<=3, msgs<=4, cap<=3 full state space; msgs=5 / cap=4 at preemption bound 2",
}


class Monitor:
    """lock discipline: after start(), Mailbox fields may only be rebound while its lock is held"""

    violations = []


def make_mailbox(name, cap, lazy):
    mb = strax.Mailbox(name=name, max_messages=cap, lazy=lazy, timeout=3600)
    return mb


class MBHarness(explore.Harness):
    def __init__(self, cfg):
        self.cfg = cfg
        self.out = []
        self.mbs = []
        self.errors = []
        self.expected = None

    def extra(self):
        return (self.out, self.errors)

    def canon(self):
        return canon.Canon()

    def invariant(self, s):
        for mb in self.mbs:
            if not mb.lazy and len(mb._mailbox) > mb.max_messages:
                return f"{mb.name} holds {len(mb._mailbox)} messages > capacity {mb.max_messages}"
        return None

    def reader(self, i):
        out = self.out[i]

        def f(src):
            for x in src:
                out.append(x)

        return f

    def final(self, s):
        key = (tuple(tuple(o) for o in self.out), s.deadlock, tuple(type(e[1]).__name__ for e in s.uncaught))
        if s.deadlock:
            return key, None  # reported by the explorer with thread names
        if s.uncaught:
            return key, "uncaught exception in thread: " + "; ".join(f"{n}: {type(e).__name__}: {e}" for n, e in s.uncaught)
        if self.errors:
            return key, "harness-visible error: " + "; ".join(self.errors)
        for i, o in enumerate(self.out):
            if o != self.expected[i]:
                return key, f"subscriber {i} received {o}, expected {self.expected[i]}"
        live = [t.name for t in s.threads if t.started and not t.done]
        if live:
            return key, f"threads still alive: {live}"
        return key, None


class H1(MBHarness):
    """iterable sender + k readers.  cfg: (n msgs, k subs, cap, lazy, mask)"""

    def main(self):
        n, k, cap, lazy, mask = self.cfg
        self.out = [[] for _ in range(k)]
        self.expected = [list(range(n))] * k
        mb = make_mailbox("mb", cap, lazy)
        self.mbs = [mb]
        mb.add_sender(iter(range(n)))
        for i in range(k):
            mb.add_reader(self.reader(i), can_drive=bool(mask[i]))
        mb.start()
        mb.cleanup()


class H2(MBHarness):
    """explicit msg numbers sent by the main thread in order `perm`.  cfg: (perm, k, cap)"""

    def main(self):
        perm, k, cap = self.cfg
        n = len(perm)
        self.out = [[] for _ in range(k)]
        self.expected = [[f"m{j}" for j in range(n)]] * k
        mb = make_mailbox("mb", cap, False)
        self.mbs = [mb]
        for i in range(k):
            mb.add_reader(self.reader(i))
        mb.start()
        for j in perm:
            mb.send(f"m{j}", msg_number=j)
        mb.send(StopIteration, msg_number=n)
        with mb._lock:
            mb.closed = True
        mb.cleanup()


class H3(MBHarness):
    """futures as messages, completed by concurrent pool workers. cfg: (n, k, cap, workers)"""

    def main(self):
        n, k, cap, workers = self.cfg
        self.out = [[] for _ in range(k)]
        self.expected = [[10 + j for j in range(n)]] * k
        mb = make_mailbox("mb", cap, False)
        self.mbs = [mb]
        ex = vsched.VExecutor(max_workers=workers)

        def src():
            for j in range(n):
                yield ex.submit(lambda j=j: 10 + j)

        mb.add_sender(src())
        for i in range(k):
            mb.add_reader(self.reader(i))
        mb.start()
        mb.cleanup()
        ex.shutdown(wait=True)


class H5(MBHarness):
    """divide_outputs: M (dict messages) -> divide_outputs reader -> mailboxes a, b.
    cfg: (n, cap, lazy, flow_b_freely, readers_b)"""

    def main(self):
        n, cap, lazy, flow, kb = self.cfg
        self.out = [[] for _ in range(1 + kb)]
        self.expected = [[("a", j) for j in range(n)]] + [[("b", j) for j in range(n)]] * kb
        M = make_mailbox("M", cap, lazy)
        A = make_mailbox("a", cap, lazy)
        B = make_mailbox("b", cap, lazy)
        self.mbs = [M, A, B]
        M.add_sender(iter([{"a": ("a", j), "b": ("b", j)} for j in range(n)]))
        M.add_reader(functools.partial(strax.divide_outputs, mailboxes={"a": A, "b": B}, lazy=lazy, flow_freely=("b",) if flow else (), outputs=("a", "b")))
        A.add_reader(self.reader(0))
        for i in range(kb):
            # a free-flowing output is read by savers / discarders that do not drive
            B.add_reader(self.reader(1 + i), can_drive=not (lazy and flow))
        for m in (M, A, B):
            m.start()
        for m in (M, A, B):
            m.cleanup()


HARN = dict(H1=H1, H2=H2, H3=H3, H5=H5)


def admissible(perm, cap):
    n = len(perm)
    if any(abs(i - p) >= cap for i, p in enumerate(perm)):
        return False
    for j in range(n):
        m = min(perm[j:])
        if sum(1 for i in range(j) if perm[i] > m) >= cap:
            return False
    return True


def configs(tier):
    cfgs = []
    full = lambda h, c: cfgs.append((h, c, "full", None))
    if tier == "quick":
        NS, KS, CAPS = (0, 1, 2, 3), (1, 2), (1, 2)
    else:
        NS, KS, CAPS = (0, 1, 2, 3, 4), (1, 2, 3), (1, 2, 3)
    for n in NS:
        for k in KS:
            for cap in CAPS:
                if tier == "thorough" and n == 4 and k == 3 and cap > 1:
                    cfgs.append(("H1", (n, k, cap, False, (1,) * k), "preempt", 2))
                else:
                    full("H1", (n, k, cap, False, (1,) * k))
            # lazy: every driver mask with >=1 driver
            for mask in itertools.product((0, 1), repeat=k):
                if not any(mask):
                    continue
                if tier == "thorough" and n == 4 and k == 3:
                    cfgs.append(("H1", (n, k, 1, True, mask), "preempt", 2))
                else:
                    full("H1", (n, k, 1, True, mask))
    if tier == "quick":
        full("H1", (1, 3, 2, False, (1, 1, 1)))
        full("H1", (1, 3, 1, True, (1, 0, 0)))
        cfgs.append(("H1", (4, 2, 2, False, (1, 1)), "preempt", 1))
    else:
        for n, k, cap in ((5, 2, 4), (5, 3, 2), (5, 1, 4), (5, 2, 1)):
            cfgs.append(("H1", (n, k, cap, False, (1,) * k), "preempt", 2))
        cfgs.append(("H1", (5, 2, 1, True, (1, 0)), "preempt", 2))
    # H2 permutations
    for n in (2, 3) if tier == "quick" else (2, 3, 4):
        for perm in itertools.permutations(range(n)):
            for cap in (1, 2, 3) if tier == "quick" else (1, 2, 3, 4):
                if not admissible(perm, cap):
                    continue
                for k in (1, 2):
                    if tier == "quick" and n == 3 and k == 2 and cap == 3:
                        continue
                    full("H2", (perm, k, cap))
    if tier == "quick":
        # 4 explicitly numbered messages, one subscriber: small state spaces, but the only place where a batch read
        # (sender ahead of the reader) is followed by an out-of-order pair
        for perm in itertools.permutations(range(4)):
            for cap in (2, 3):
                if admissible(perm, cap):
                    full("H2", (perm, 1, cap))
    # H3 futures
    for n, k, cap, w in ((1, 1, 1, 1), (1, 2, 1, 1), (2, 1, 1, 1), (2, 1, 2, 2), (2, 2, 1, 1)) + (((2, 2, 2, 2), (3, 1, 2, 2), (3, 2, 3, 1)) if tier == "thorough" else ()):
        full("H3", (n, k, cap, w))
    # H5 divide_outputs
    for n in (1, 2) if tier == "quick" else (1, 2, 3):
        for cap in (1, 2):
            for lazy in (False, True):
                for flow in (False, True):
                    for kb in (1,) if tier == "quick" else (1, 2):
                        if lazy and cap > 1:
                            continue
                        if tier == "quick" and n == 2 and cap == 2:
                            continue
                        full("H5", (n, cap, lazy, flow, kb))
    return cfgs


def plan(tier, seed):
    cfgs = configs(tier)
    jobs = [("explore",) + c for c in cfgs]
    # pruning cross-check: stateless vs hashed at delay bound 1 on a rotating slice
    xs = [c for c in cfgs if c[2] == "full"]
    K = 6
    for i, c in enumerate(xs):
        if i % K == seed % K or (c[0] == "H1" and c[1][0] == 2 and c[1][1] == 2):
            jobs.append(("xcheck", c[0], c[1], "delay", 1))
    # biggest first for load balance
    jobs.sort(key=lambda j: -(_weight(j)))
    return jobs


def _weight(j):
    h, c = j[1], j[2]
    if h == "H1":
        return (c[0] + 1) ** 3 * c[1] ** 3 * (3 if j[3] != "full" else 1)
    if h == "H2":
        return len(c[0]) ** 3 * c[1] ** 3
    if h == "H5":
        return (c[0] + 1) ** 3 * 20
    return 30


def worker_init():
    vsched.install()


def _mk(hname, cfg):
    return lambda: HARN[hname](cfg)


def run_job(job):
    res = Result()
    kind, hname, cfg, regime, bound = job
    mk = _mk(hname, cfg)
    if kind == "explore":
        r = explore.explore(mk, regime=regime, bound=bound, hashing=True)
        res.evals += 1
        res.count("configs")
        res.count("states", r.states)
        res.count("transitions", r.transitions)
        res.count("executions", r.executions)
        res.count("complete_executions", r.complete)
        res.count("replay_prefix_points_checked", r.replay_checks)
        res.mx("max_depth", r.maxdepth)
        res.mx("max_states_one_config", r.states)
        res.add_set("terminal_observations", (hname, cfg, tuple(sorted(map(repr, r.outcomes)))))
        if r.states > 1:
            res.nt(hname, cfg, regime, bound)
        import os
        if os.environ.get("VERIF_TIMING"):
            import sys
            print(f"TIMING {r.wall:.1f}s {hname}{cfg} {regime}/{bound} states={r.states} execs={r.executions}", file=sys.stderr, flush=True)
        res.sample(dict(harness=hname, cfg=cfg, regime=regime, bound=bound, states=r.states, transitions=r.transitions, executions=r.executions, terminal_observations=len(r.outcomes)), cap=2)
        for kind_, msg, choices in r.violations[:3]:
            res.violation(f"{hname}:{kind_}:{_norm(msg)}", f"{hname}{cfg} {regime}/{bound}: {msg}", dict(harness=hname, cfg=cfg, choices=choices))
    else:
        a = explore.explore(mk, regime=regime, bound=bound, hashing=True)
        b = explore.explore(mk, regime=regime, bound=bound, hashing=False)
        res.evals += 1
        res.count("xcheck_configs")
        res.count("xcheck_stateless_executions", b.executions)
        res.count("executions", a.executions + b.executions)
        va = sorted({(k, _norm(m)) for k, m, c in a.violations})
        vb = sorted({(k, _norm(m)) for k, m, c in b.violations})
        if a.outcomes != b.outcomes or va != vb:
            res.harness_errors.append(f"pruning cross-check failed for {hname}{cfg}: hashed outcomes {len(a.outcomes)} vs stateless {len(b.outcomes)}; {va} vs {vb}")
    return res


def _norm(msg):
    import re

    return re.sub(r"\d+", "N", msg)[:80]


def replay(case):
    cfg = case["cfg"]

    def tup(x):
        return tuple(tup(y) for y in x) if isinstance(x, list) else x

    cfg = tup(cfg)
    vsched.install()
    out = []
    for _ in range(2):  # must reproduce twice
        h, s, info = explore.replay(_mk(case["harness"], cfg), case["choices"])
        key, viol = h.final(s)
        inv = info["inv"]
        msg = viol or (inv and inv[0]) or ("deadlock" if s.deadlock else None)
        out.append(msg)
    if out[0] != out[1]:
        raise vsched.HarnessError(f"replay not deterministic: {out}")
    if out[0]:
        return [dict(fingerprint=f"{case['harness']}:replay:{_norm(out[0])}", what=out[0])]
    return []


def sanity(total, tier):
    if total.counters.get("states", 0) < 1000:
        return "fewer than 1000 states explored"
    multi = sum(1 for (h, c, o) in total.sets.get("terminal_observations", ()) if len(o) > 0)
    if multi < 5:
        return "too few configurations reached a terminal state"
