"""C08 - plugins see time-aligned inputs and receive each input row exactly once.
Drives the real Plugin.iter of a recorder plugin with explicit chunk iterators."""
import itertools, warnings
import numpy as np
import strax
from vlib.runner import Result
from vlib import smallscope as ss, graphs as g, ctxrun

ID = "C08"
LEVEL = "exploration"
RULE = (
    "dependency shapes {1 dep; 2 same-kind; 2 kinds; 2 same-kind + 1 other; 3 kinds} x every sorted row set (<=N rows per "
    "kind on a 0..G grid, overlaps allowed) x every law-abiding chunking of each dependency independently (same-kind "
    "dependencies share rows, not chunking; empty and zero-duration chunks) x save_when {ALWAYS, EXPLICIT} x end-of-run "
    "variants (equal ends / one dependency ending later with or without extra rows); the recorder plugin's do_compute "
    "inputs are checked: identical (start,end) for all inputs of a call, same-kind inputs merged row-aligned, adjacent "
    "successive calls, every row exactly once in time order, and an exception when rows cannot be delivered to a strict plugin. "
    "non-trivial: >=2 chunks in some dependency and >=1 row; distinct by input."
)
ASSUMPTIONS = ["small scope: <=3 rows per kind, grid 0..4; all dependencies start at the same time", "4 dependencies (upper end of the quantifier) are not enumerated"]
BOUNDS = {"quick": "1 dep: rows<=3; 2 same: rows<=2; 2 kinds: rows<=2 each; 2+1: rows<=1-2, <=2 cuts", "thorough": "rows<=3 for one/two deps on grid 5; 2 kinds and 2+1 on grid 4 with rows<=2; 3 kinds on grid 3 with rows<=2,2,1 and <=2 cuts each"}

G = 4


def val(dep, rid):
    return (rid * 7 + 3 + 11 * (sum(map(ord, dep)) % 5)) % 13


def mk_dep_chunks(dep, kind, iv, bounds):
    dt = g.dt_for(dep)
    rows = np.zeros(len(iv), dt)
    for i, (a, b) in enumerate(iv):
        rows[i] = (a, b, i, val(dep, i))
    out = []
    for (a, b), idx in zip(zip(bounds[:-1], bounds[1:]), ss.assign_rows(iv, bounds)):
        out.append(strax.Chunk(data_type=dep, data_kind=kind, dtype=dt, run_id="0", start=a, end=b, data=rows[idx] if idx else rows[:0]))
    return out


_CTX = {}


def recorder(shape, strict):
    """shape: tuple of (dep, kind).  -> (context, calls list)"""
    key = (shape, strict)
    if key in _CTX:
        return _CTX[key]
    calls = []
    classes = []
    for dep, kind in shape:
        classes.append(type("Src_" + dep, (strax.Plugin,), dict(provides=dep, depends_on=(), data_kind=kind, dtype=g.dt_for(dep), compute=lambda self: None, __version__="0")))
    first_kind = shape[0][1]

    def do_compute(self, chunk_i=None, **kwargs):
        calls.append({k: (c.start, c.end, c.data.copy()) for k, c in kwargs.items()})
        return strax.Plugin.do_compute(self, chunk_i=chunk_i, **kwargs)

    def compute(self, **kw):
        x = kw[first_kind]
        return g._out(x, "rec", np.zeros(len(x), np.int64))

    classes.append(type("Rec", (strax.Plugin,), dict(provides="rec", depends_on=tuple(d for d, k in shape), data_kind=first_kind, dtype=g.dt_for("rec"), compute=compute, do_compute=do_compute,
                                                      save_when=strax.SaveWhen.ALWAYS if strict else strax.SaveWhen.EXPLICIT, __version__="0")))
    st = strax.Context(storage=[], register=classes, **g.CTX_DEFAULTS)
    _CTX[key] = (st, calls)
    return st, calls


def check_case(res, shape, rows_by_kind, bounds_by_dep, strict, mismatch=None):
    """rows_by_kind: {kind: iv}; bounds_by_dep: {dep: bounds}; mismatch: None | (dep, extra_row?)"""
    case = dict(shape=shape, rows=rows_by_kind, bounds=bounds_by_dep, strict=strict, mismatch=mismatch)
    st, calls = recorder(shape, strict)
    calls.clear()
    p = st.get_single_plugin("0", "rec")
    rows = dict(rows_by_kind)
    bnds = dict(bounds_by_dep)
    undeliverable = False
    if mismatch is not None:
        mdep, extra = mismatch[0], mismatch[1]
        widen = len(mismatch) > 2 and mismatch[2]
        mkind = dict(shape)[mdep]
        E = bnds[mdep][-1]
        # either an additional chunk [E, E+2) or the last chunk widened to end at E+2
        bnds[mdep] = (bnds[mdep][:-1] + (E + 2,)) if (widen and len(bnds[mdep]) > 1 and bnds[mdep][-2] < E) else (bnds[mdep] + (E + 2,))
        if extra:
            # an extra row beyond the common end; same-kind partners do not have it
            rows = dict(rows)
            rows[("x", mdep)] = rows[mkind] + ((E, E + 1),)
            undeliverable = True
    iters = {}
    for dep, kind in shape:
        iv = rows.get(("x", dep), rows[kind])
        iters[dep] = iter(mk_dep_chunks(dep, kind, iv, bnds[dep]))
    exc = None
    try:
        with warnings.catch_warnings():
            warnings.simplefilter("ignore")
            outs = list(p.iter(iters))
    except Exception as e:
        exc = e
    kinds = []
    for dep, kind in shape:
        if kind not in kinds:
            kinds.append(kind)
    if mismatch is not None:
        # dependencies end at different times
        if not strict:
            return  # lenient plugins: nothing required
        if exc is not None:
            return
        if undeliverable:
            res.violation(f"mismatch:silently-dropped:{len(shape)}deps", "a dependency ends later with an extra row; strict plugin finished without error", case)
            return
        # no rows lost: fine either way, but delivered rows must still be complete
    elif exc is not None:
        res.violation(ctxrun.exc_fp(exc), f"valid law-abiding inputs ending together raised {type(exc).__name__}: {exc}"[:300], case)
        return
    # --- oracle on the recorded calls
    S = min(b[0] for b in bounds_by_dep.values())
    Ecommon = min(b[-1] for b in bnds.values())
    prev_end = None
    seen = {k: [] for k in kinds}
    for ci, call in enumerate(calls):
        rngs = {(s, e) for s, e, d in call.values()}
        if len(rngs) != 1:
            res.violation("call:ranges-differ", f"call {ci}: inputs cover different intervals {sorted(rngs)}", case)
            return
        (s, e), = rngs
        if set(call) != set(kinds):
            res.violation("call:kinds", f"call {ci} got kinds {sorted(call)} expected {kinds}", case)
            return
        if prev_end is not None and s != prev_end:
            res.violation("call:not-adjacent", f"call {ci} starts at {s}, previous ended at {prev_end}", case)
            return
        if prev_end is None and s != S:
            res.violation("call:first-start", f"first call starts at {s}, inputs start at {S}", case)
            return
        prev_end = e
        for kind, (_, _, d) in call.items():
            if len(d) and (d["time"].min() < s or strax.endtime(d).max() > e):
                res.violation("call:row-outside", f"call {ci}: a {kind} row lies outside [{s},{e})", case)
                return
            deps = [dep for dep, k in shape if k == kind]
            for dep in deps:
                want = np.array([val(dep, r) for r in d["rid"]], dtype=np.int64)
                if f"v_{dep}" not in d.dtype.names or not np.array_equal(d[f"v_{dep}"], want):
                    res.violation("call:merge-misaligned", f"call {ci}: field v_{dep} of kind {kind} is not row-aligned", case)
                    return
            seen[kind] += [int(r) for r in d["rid"]]
    if prev_end is not None and mismatch is None and prev_end != Ecommon:
        res.violation("call:last-end", f"last call ends at {prev_end}, inputs end at {Ecommon}", case)
        return
    for kind in kinds:
        n = len(rows_by_kind[kind])
        if seen[kind] != list(range(n)):
            res.violation("rows:not-exactly-once", f"kind {kind}: delivered row ids {seen[kind]}, expected {list(range(n))}", case)
            return
    res.add_set("ncalls", len(calls))


def row_sets(maxn, disjoint=False, G=G):
    return list(ss.interval_sets_upto(maxn, 0, G, min_len=1, disjoint=disjoint))


def chunkings_for(iv, max_cuts=None, zero=True, G=G):
    return list(ss.chunkings(iv, 0, G + 1, max_cuts=max_cuts, zero_dur=zero and len(iv) <= 2))


SHAPES = {
    "one": (("d1", "ka"),),
    "same2": (("d1", "ka"), ("d2", "ka")),
    "kinds2": (("d1", "ka"), ("e1", "kb")),
    "same2_other": (("d1", "ka"), ("d2", "ka"), ("e1", "kb")),
    "kinds3": (("d1", "ka"), ("e1", "kb"), ("f1", "kc")),
}


def enum_cases(sname, tier):
    q = tier == "quick"
    if sname == "one":
        for iv in row_sets(3):
            for b in chunkings_for(iv):
                yield {"ka": iv}, {"d1": b}
    elif sname == "same2":
        for iv in row_sets(2 if q else 3):
            cs = chunkings_for(iv, zero=len(iv) <= 1)
            for b1 in cs:
                for b2 in cs:
                    yield {"ka": iv}, {"d1": b1, "d2": b2}
    elif sname == "kinds2":
        Gk = 3 if q else 4
        for iv1 in row_sets(2, G=Gk):
            c1 = chunkings_for(iv1, zero=len(iv1) <= 1, G=Gk)
            for iv2 in row_sets(2, G=Gk):
                c2 = chunkings_for(iv2, zero=False, G=Gk)
                for b1 in c1:
                    for b2 in c2:
                        yield {"ka": iv1, "kb": iv2}, {"d1": b1, "e1": b2}
    elif sname == "same2_other":
        Gk = 3 if q else 4
        for iv1 in row_sets(1 if q else 2, G=Gk):
            c1 = chunkings_for(iv1, max_cuts=2, zero=False, G=Gk)
            for iv2 in row_sets(2, G=Gk):
                c2 = chunkings_for(iv2, max_cuts=1 if q else 2, zero=False, G=Gk)
                for b1 in c1:
                    for b2 in c1:
                        for b3 in c2:
                            yield {"ka": iv1, "kb": iv2}, {"d1": b1, "d2": b2, "e1": b3}
    elif sname == "kinds3":
        # thorough: grid 3, <=2 rows in the first two kinds, <=1 in the third, <=2 cuts each (603 288 inputs); the full
        # grid-4 / <=2-rows product has > 3e7 inputs and is out of reach
        Gk = 3
        rs = row_sets(1 if q else 2, G=Gk)
        for iv1 in rs:
            c1 = chunkings_for(iv1, max_cuts=1 if q else 2, zero=False, G=Gk)
            for iv2 in rs:
                c2 = chunkings_for(iv2, max_cuts=1 if q else 2, zero=False, G=Gk)
                for iv3 in row_sets(1, G=Gk):
                    c3 = chunkings_for(iv3, max_cuts=1 if q else 2, zero=False, G=Gk)
                    for b1 in c1:
                        for b2 in c2:
                            for b3 in c3:
                                yield {"ka": iv1, "kb": iv2, "kc": iv3}, {"d1": b1, "e1": b2, "f1": b3}


def plan(tier, seed):
    NS = 16 if tier == "quick" else 48
    jobs = []
    for sname in SHAPES:
        for sh in range(NS):
            jobs.append((sname, sh, NS, tier))
    return jobs


def worker_init():
    g.quiet()


def run_job(job):
    sname, sh, ns, tier = job
    res = Result()
    shape = SHAPES[sname]
    for i, (rows, bnds) in enumerate(enum_cases(sname, tier)):
        if i % ns != sh:
            continue
        for strict in (True, False):
            res.evals += 1
            if any(len(v) for v in rows.values()) and any(len(b) > 2 for b in bnds.values()):
                res.nt(sname, tuple(sorted(rows.items())), tuple(sorted(bnds.items())), strict)
            check_case(res, shape, rows, bnds, strict)
        # end-of-run mismatch variants (every 3rd input, rotating over dependencies)
        if i % 3 == 0 and len(shape) > 1:
            dep = shape[(i // 3) % len(shape)][0]
            for extra in (False, True):
                for strict in (True, False):
                    for widen in (False, True):
                        res.evals += 1
                        check_case(res, shape, rows, bnds, strict, mismatch=(dep, extra, widen))
                        res.count("mismatch_cases")
        if i % 997 == 0:
            res.sample(dict(shape=sname, rows=rows, bounds=bnds), cap=2)
    res.count("cases_" + sname, res.evals)
    return res


def replay(case):
    g.quiet()
    res = Result()
    tup = lambda x: tuple(tup(y) for y in x) if isinstance(x, list) else x
    shape = tup(case["shape"])
    rows = {k: tup(v) for k, v in case["rows"].items()}
    bnds = {k: tup(v) for k, v in case["bounds"].items()}
    mm = tuple(case["mismatch"]) if case.get("mismatch") else None
    check_case(res, shape, rows, bnds, case["strict"], mm)
    return res.violations


def sanity(total, tier):
    for s in SHAPES:
        if total.counters.get("cases_" + s, 0) < 100:
            return f"shape {s}: only {total.counters.get('cases_'+s,0)} cases"
    if len(total.sets.get("ncalls", ())) < 4:
        return "fewer than 4 distinct numbers of compute calls observed"
