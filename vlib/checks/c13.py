"""C13 - production is limited by demand and buffer capacity (backpressure).
The consumer of get_iter takes k chunks and then stops pulling forever; every schedule (up to a
delay bound) of the real threaded processor is run until quiescence (no enabled thread)."""
import numpy as np
import strax
from vlib.runner import Result
from vlib import graphs as g, ctxrun, vsched, explore, pipe

ID = "C13"
LEVEL = "model_checking"
RULE = (
    "cells = graph {chain2, chain3, diamond, multi-output with discarded side output, chain with savers} x capacity 1..3 x "
    "{eager, lazy} x consumer pause point k in {0,1,2} x run length N and 2N source chunks; every schedule with <=B delays of "
    "the real ThreadedMailboxProcessor is executed until no thread is enabled; observation = number of source compute calls at "
    "quiescence. oracle: the set of observed counts is identical for N and 2N (so it cannot grow with the run length) and its "
    "maximum is below k + sum over stages (2*capacity+2); eager: no mailbox ever holds more than its capacity (every state); lazy: "
    "whenever a sender's fetch gate opens, a driving subscriber is waiting for a message that is not in the mailbox (monitor on "
    "the real fields at the gate decision). 16 further cells (graph@node=k) give one plugin its own, larger max_messages: every "
    "mailbox is held to its INTENDED capacity (context option, or the plugin's own value for its own outputs), not to whatever the processor configured."
)
ASSUMPTIONS = [
    "schedules exhausted up to the delay bound only (stateless exploration); atomic steps = lock/condition/thread operations",
    "a parked consumer makes 'no enabled thread' the expected terminal state (quiescence); before the consumer parks it is a deadlock",
    "worker pools (max_workers>1) disable lazy mode and are not part of this check's cells",
]
BOUNDS = {"quick": "N = ceiling+1 vs 2N, capacities 1-2 (3 for chain2; 1 for diamond/multi-output), delay bound 1", "thorough": "N = ceiling+1 vs 2N, capacities 1-3, delay bound 1 for all cells, bound 2 for chain2"}


def cells(tier):
    C = []
    for gname in ("chain2", "chain3", "diamond", "multi_used", "chain2+savers"):
        for cap in (1, 2, 3):
            if tier == "quick" and cap == 3 and gname != "chain2":
                continue
            for mode in ("eager", "lazy"):
                for k in (0, 1, 2):
                    if k == 0 and not (gname == "chain2" and cap == 1):
                        continue  # nothing starts before the first next(); one cell suffices
                    C.append((gname, cap, mode, k))
    # one plugin declares its own (larger) buffer size: every OTHER mailbox must keep the context's capacity
    for gname, node in (("chain3", "mp"), ("chain3", "fl"), ("chain3", "src"), ("multi_used", "mo"), ("diamond", "pa")):
        for cap in (1, 2):
            if cap == 1 and gname != "chain3":
                continue
            for mode in ("eager", "lazy"):
                C.append((f"{gname}@{node}={cap + 3}", cap, mode, 1))
    return C


def mk_case(cell, N):
    gname, cap, mode, k = cell
    savers = gname.endswith("+savers")
    gn = gname.split("+")[0]
    pcap = None
    if "@" in gn:
        gn, spec = gn.split("@")
        node, kk = spec.split("=")
        pcap = (node, int(kk))
    return pipe.PipeCase(gn, tuple(range(N + 1)), mode=mode, max_messages=cap, consumer=("park", k), save_when=None if savers else "explicit", plugin_cap=pcap)


class H(pipe.PipeHarness):
    def main(self):
        pipe.GATE_VIOLATIONS.clear()
        pipe.LAST_PROC["p"] = None
        super().main()

    def invariant(self, s):
        p = pipe.LAST_PROC["p"]
        if p is not None and not self.mailboxes:
            self.mailboxes = dict(p.mailboxes)
        if pipe.GATE_VIOLATIONS:
            return "lazy fetch gate: " + pipe.GATE_VIOLATIONS[0]
        return super().invariant(s)

    def final(self, s):
        o = self.obs
        n = sum(self.world.source_calls.values()) if self.world else -1
        key = n
        if s.deadlock:
            return key, None
        if o["exc"] is not None:
            return key, f"run raised {type(o['exc']).__name__}: {str(o['exc'])[:200]}"
        if pipe.GATE_VIOLATIONS:
            return key, "lazy fetch gate: " + pipe.GATE_VIOLATIONS[0]
        stray = [(nm, e) for nm, e in s.uncaught]
        if stray:
            return key, f"uncaught exception in {stray[0][0]}: {stray[0][1]!r}"[:300]
        return key, None


BARE = [(n, k, 1, True, mask) for n in (1, 2, 3) for k in (1, 2) for mask in ((1,), (1, 1), (1, 0), (0, 1)) if len(mask) == k]
BARE_T = BARE + [(2, 3, 1, True, m) for m in ((1, 0, 0), (1, 1, 0), (0, 1, 1))] + [(4, 2, 1, True, (1, 0))]


def plan(tier, seed):
    C = cells(tier)
    jobs = []
    for i, cell in enumerate(C):
        bound = 2 if (cell[0] == "chain2" and cell[1] == 1) or (tier == "thorough" and cell[0] == "chain2" and cell[1] <= 2) else 1
        jobs.append((i, bound, tier))
    jobs.sort(key=lambda j: (-j[1], -C[j[0]][1]))
    # bare lazy mailbox: FULL reachable state space with the fetch-gate monitor
    for cfg in (BARE if tier == "quick" else BARE_T):
        jobs.append(("bare", cfg, tier))
    return jobs


class BareLazy:
    pass


def run_bare(cfg):
    from vlib.checks import c05

    class HB(c05.H1):
        def main(self):
            pipe.GATE_VIOLATIONS.clear()
            super().main()

        def invariant(self, s):
            if pipe.GATE_VIOLATIONS:
                return "lazy fetch gate: " + pipe.GATE_VIOLATIONS[0]
            return super().invariant(s)

    res = Result()
    r = explore.explore(lambda: HB(cfg), regime="full", hashing=True)
    res.evals += 1
    res.count("bare_configs")
    res.count("bare_states", r.states)
    res.count("states", r.states)
    res.count("transitions", r.transitions)
    res.count("executions", r.executions)
    res.nt("bare", cfg)
    for kind, msg, choices in r.violations[:2]:
        tag = "gate" if "fetch gate" in msg else kind
        res.violation(f"bare:{tag}", f"bare lazy mailbox {cfg}: {msg}"[:400], dict(bare=cfg, choices=choices))
    return res


def worker_init():
    pipe.install()
    pipe.install_monitors()


def nstages(gname):
    return {"chain2": 2, "chain3": 3, "diamond": 4, "multi_used": 4, "chain2+savers": 2}[gname.split("@")[0]]


def run_job(job):
    if job[0] == "bare":
        return run_bare(job[1])
    i, bound, tier = job
    res = Result()
    cell = cells(tier)[i]
    gname, cap, mode, k = cell
    ceiling = k + nstages(gname) * (2 * cap + 2)  # a reader may hold `cap` messages it grabbed at once while the mailbox refills
    if "@" in gname:
        ceiling += 2 * 2 * (int(gname.split("=")[1]) - cap)  # the declaring plugin's own mailbox(es, two for a multi-output plugin) are larger
    N = ceiling + 1  # the run must be longer than what the pipeline can buffer
    sets = {}
    for n in (N, 2 * N):
        pc = mk_case(cell, n)
        r = explore.explore(lambda: H(pc), regime="delay", bound=bound, hashing=False, max_execs=60000)
        sets[n] = set(r.outcomes)
        res.count("executions", r.executions)
        res.count("transitions", r.transitions)
        res.count("states", r.transitions + 1)
        res.mx("max_depth", r.maxdepth)
        if r.cap_hit:
            res.caps_hit.append(f"cell {cell} N={n}: {r.cap_hit}")
        for kind, msg, choices in r.violations[:2]:
            tag = "gate" if "fetch gate" in msg else ("capacity" if "capacity" in msg else kind)
            res.violation(f"{tag}:{mode}:{gname}", f"{cell} N={n} bound {bound}: {msg}"[:400], dict(cell=pc.key(), choices=choices))
    res.evals += 1
    res.count("cells")
    res.nt(cell, bound)
    res.add_set("quiescent_counts", (cell, tuple(sorted(sets[N]))))
    res.mx("max_source_calls_at_rest", max(sets[2 * N] | sets[N]))
    if i % 7 == 0:
        res.sample(dict(cell=cell, N=N, counts_N=sorted(sets[N]), counts_2N=sorted(sets[2 * N]), bound=bound), cap=1)
    case = dict(cellspec=cell, N=N, bound=bound)
    if sets[N] != sets[2 * N]:
        res.violation(f"grows-with-run-length:{mode}:{gname}", f"{cell}: source chunks produced at rest {sorted(sets[N])} for N={N} but {sorted(sets[2*N])} for N={2*N}", case)
    if max(sets[2 * N]) > ceiling:
        res.violation(f"exceeds-ceiling:{mode}:{gname}", f"{cell}: {max(sets[2*N])} source chunks produced at rest > {ceiling}", case)
    return res


def replay(case):
    worker_init()
    if "bare" in case:
        tup = lambda x: tuple(tup(y) for y in x) if isinstance(x, list) else x
        r = run_bare(tup(case["bare"]))
        return r.violations
    if "cellspec" in case:
        res = Result()
        cell = tuple(case["cellspec"])
        tier = "thorough"
        i = cells(tier).index(cell)
        r = run_job((i, case["bound"], tier))
        return r.violations
    pc = pipe.PipeCase.from_key(case["cell"])
    h, s, info = explore.replay(lambda: H(pc), case["choices"])
    key, viol = h.final(s)
    if info["inv"]:
        viol = viol or info["inv"][0]
    if s.deadlock and not viol:
        viol = "deadlock"
    return [dict(fingerprint="replay", what=viol)] if viol else []


def sanity(total, tier):
    if total.counters.get("executions", 0) < 1000:
        return "fewer than 1000 executions"
    if total.maxes.get("max_source_calls_at_rest", 0) < 2:
        return "sources never ran ahead of the consumer"
