"""C01 - results independent of chunking / processor / parallelism / storage.
Exhaustive enumeration of (graph x source rows x law-abiding chunkings x processor/config cell x
stored subset) on the real Context; threaded runs execute under the controlled scheduler (fixed
default schedule) and a slice of cases is explored over schedules (delay-bounded)."""
import itertools, os
import numpy as np
import strax
from vlib.runner import Result
from vlib import smallscope as ss, graphs as g, ctxrun, vsched, explore

ID = "C01"
LEVEL = "exploration"
RULE = (
    "for each catalogue graph (chain, filter chain, diamond/same-kind merge, two-kind loop, multi-output used/discarded, "
    "multi-output merge, overlap window, down-chunking, exhaust): every disjoint source row set of <=N rows on a 0..G grid "
    "x every law-abiding chunking (incl. empty and zero-duration chunks; independent per source) x config cells "
    "(processor, max_workers, lazy/eager, max_messages, rechunk target) x every subset of non-target data types pre-stored "
    "with a different chunking x {one storage frontend, a second empty writable frontend (every third input)}; oracle: rows == "
    "whole-run reference, chunks tile contiguously, everything saved re-reads to the reference from a fresh context - from "
    "each frontend separately when there are two. Schedule slice: delay-bounded exploration of the threaded processor. "
    "non-trivial: >=1 source row and >=2 chunks; distinct by (graph, rows, chunking, cell, stored subset)."
)
ASSUMPTIONS = [
    "small scope: <=3-4 rows per source on a 5-6 point grid (unit 600 ns)",
    "threaded runs of the input/config enumeration use one fixed (default) schedule; schedules are enumerated only for the slice listed in coverage.counters (delay bound 1-2)",
    "allow_multiprocess / real OS processes are not exercised",
    "mailbox capacity 1 (thorough only) is applied to single-input graphs only: the property holds 'with capacity above the largest plugin lag', and a two-input plugin lags one chunk on one input (diamond / multi_merge with a trailing zero-duration chunk come to rest at capacity 1; found by the thorough tier)",
]
BOUNDS = {"quick": "rows<=3 grid 0..4, 8 config cells, all stored subsets (<=8); schedule slice: 3 graphs, delay bound 1", "thorough": "rows<=3 grid 0..4, 14 config cells x all stored subsets with six rotating (cell, subset) combinations per input; schedule slice: all graphs bound 1, chain2/multi bound 2"}

RUN = "0"

# (processor, max_workers, allow_lazy, max_messages, rechunk_target_rows or None, plugins_parallel)
CELLS_QUICK = [
    ("single_thread", None, True, 4, None, False),
    ("single_thread", None, True, 4, 1, False),
    ("single_thread", None, True, 4, 2, False),
    ("threaded_mailbox", None, True, 4, None, False),
    ("threaded_mailbox", None, False, 2, 2, False),
    ("threaded_mailbox", 2, True, 4, 1, True),
    ("threaded_mailbox", None, True, 2, 0, False),
    ("threaded_mailbox", 2, False, 2, None, False),
]
CELLS_THOROUGH = CELLS_QUICK + [
    ("threaded_mailbox", None, False, 4, 1, False),
    ("threaded_mailbox", None, True, 3, 2, False),
    ("threaded_mailbox", 2, False, 4, 2, True),
    ("threaded_mailbox", 3, False, 3, 0, True),
    ("single_thread", None, True, 4, 0, False),
    ("threaded_mailbox", None, True, 1, None, False),
]


def inputs_for(gname, spec, maxn, G):
    """all (sources dict) for a graph: row sets x chunkings per source"""
    srcs = [n["name"] for n in spec if n["kind"] == "source"]
    per = []
    for s in srcs:
        lst = []
        for iv in ss.interval_sets_upto(maxn, 0, G, min_len=1, disjoint=True):
            lo = iv[0][0] if iv else 0
            hi = iv[-1][1] if iv else 1
            for S, E in sorted({(lo, hi), (0, G + 1)}):
                for b in ss.chunkings(iv, S, E, zero_dur=len(iv) <= 2):
                    lst.append(dict(iv=iv, bounds=b))
        per.append(lst)
    if len(srcs) == 1:
        for x in per[0]:
            yield {srcs[0]: x}
    else:
        # two sources: both must cover the same overall range (dependencies must end together);
        # zero-duration variants only on the first source to keep the product tractable
        for x in per[0]:
            for y in per[1]:
                if x["bounds"][0] == y["bounds"][0] and x["bounds"][-1] == y["bounds"][-1] and len(set(y["bounds"])) == len(y["bounds"]):
                    yield {srcs[0]: x, srcs[1]: y}


def alt_bounds(src):
    iv, b = src["iv"], src["bounds"]
    S, E = b[0], b[-1]
    if len(b) > 2:
        return (S, E)
    return (S,) + tuple(ss.admissible_cuts(iv, S, E)) + (E,)


def node_attrs(spec, cell, world_types):
    proc, workers, lazy, mm, rc, par = cell
    attrs = {}
    for n in spec:
        a = dict(save_when=strax.SaveWhen.EXPLICIT)
        if n["kind"] == "multi":
            from immutabledict import immutabledict

            a["save_when"] = immutabledict({p: strax.SaveWhen.EXPLICIT for p in g.provides_of(n)})
        if n["kind"] not in ("source", "downchunk"):
            a["rechunk_on_save"] = rc is not None
            if rc:
                a["chunk_target_size_mb"] = g.target_size_rows(rc, g.provides_of(n)[0])
        if par and n["kind"] in ("map", "filter", "merge2", "multi"):
            a["parallel"] = "thread"
        attrs[n["name"]] = a
    return attrs


def run_case(res, gname, spec, sources, cell, stored, explore_sched=None, two_frontends=False):
    proc, workers, lazy, mm, rc, par = cell
    case = dict(graph=gname, sources=sources, cell=cell, stored=sorted(stored), two_frontends=two_frontends)
    ref = g.reference(spec, sources)
    target = g.final_target(spec)
    types = g.all_types(spec)
    d = ctxrun.fresh_dir("c01")
    world = g.World(spec, {k: dict(v) for k, v in sources.items()})
    classes = g.make_classes(spec, world, node_attrs(spec, cell, types))
    opts = dict(g.CTX_DEFAULTS)
    opts.update(allow_lazy=lazy, max_messages=mm, allow_rechunk=rc is not None)

    d2 = d + "_second"
    import shutil as _sh

    _sh.rmtree(d2, ignore_errors=True)

    def ctx(second=False, only_second=False):
        sto = [strax.DataDirectory(d2)] if only_second else [strax.DataDirectory(d)] + ([strax.DataDirectory(d2)] if second else [])
        return strax.Context(storage=sto, register=classes, **opts)

    try:
        # ---- pre-store the subset with a different chunking, single-thread, one by one
        if stored:
            for s in world.sources:
                world.sources[s]["bounds"] = alt_bounds(sources[s])
            st0 = ctx()
            for t in types:
                if t in stored:
                    st0.make(RUN, t, save=(t,), processor="single_thread", progress_bar=False)
            for s in world.sources:
                world.sources[s]["bounds"] = sources[s]["bounds"]
            world.log.clear()
            world.calls.clear()
        # ---- the run under test (two_frontends: a second, empty, writable frontend - everything computed goes to both)
        st = ctx(second=two_frontends)
        save = tuple(t for t in types if t not in stored)
        kw = dict(save=save, max_workers=workers)
        if explore_sched is None:
            chunks = ctxrun.get_chunks(st, RUN, target, processor=proc, **kw)
        else:
            chunks = explore_sched(lambda: [c for c in st.get_iter(RUN, target, processor=proc, progress_bar=False, **kw)])
            if chunks is None:
                return
    except ctxrun.Deadlock as e:
        res.violation(f"deadlock:{gname}", f"{e}", case)
        return
    except vsched.HarnessError:
        raise
    except Exception as e:
        res.violation(ctxrun.exc_fp(e), f"{type(e).__name__}: {e}"[:300], case)
        return
    msg = ctxrun.tiling_violation(chunks)
    if msg:
        res.violation(f"tiling:{gname}", msg, case)
    got = ctxrun.concat(chunks)
    if not ctxrun.rows_equal(got, ref[target]):
        res.violation(f"rows:{gname}:{proc}", f"rows differ from whole-run reference: got {got.tolist()} expected {ref[target].tolist()}"[:400], case)
        return
    # ---- everything that should now be stored re-reads to the reference from a fresh context
    st2 = ctx()
    # which types were (re)computed in the test run: on the path from target to the stored frontier
    need = needed_types(spec, target, stored)
    for t in types:
        should = (t in stored) or (t in need)
        try:
            is_st = st2.is_stored(RUN, t)
        except Exception as e:
            res.violation(f"is_stored-raised:{type(e).__name__}", str(e)[:200], case)
            continue
        if t in need and t not in stored and not is_st:
            res.violation(f"not-saved:{gname}", f"{t} was computed with save=... but is not stored", case)
        if is_st:
            try:
                cs = ctxrun.get_chunks(st2, RUN, t, processor="single_thread")
            except Exception as e:
                res.violation(f"reload-raised:{type(e).__name__}", f"{t}: {e}"[:300], case)
                continue
            m = ctxrun.tiling_violation(cs)
            if m:
                res.violation(f"stored-tiling:{gname}", f"{t}: {m}", case)
            if not ctxrun.rows_equal(ctxrun.concat(cs), ref[t]):
                res.violation(f"stored-rows:{gname}", f"stored {t} differs from the reference", case)


    if two_frontends:
        st3 = ctx(only_second=True)
        for t in types:
            if t in need and t not in stored:
                try:
                    if not st3.is_stored(RUN, t):
                        res.violation(f"second-frontend:not-saved:{gname}", f"{t} was computed but is not stored in the second frontend", case)
                        continue
                    cs = ctxrun.get_chunks(st3, RUN, t, processor="single_thread")
                    if not ctxrun.rows_equal(ctxrun.concat(cs), ref[t]) or ctxrun.tiling_violation(cs):
                        res.violation(f"second-frontend:rows:{gname}", f"{t} stored in the second frontend differs from the reference", case)
                except Exception as e:
                    res.violation(f"second-frontend:raised:{type(e).__name__}", f"{t}: {e}"[:300], case)
        res.count("two_frontend_cases")
        import shutil

        shutil.rmtree(d2, ignore_errors=True)


def needed_types(spec, target, stored):
    """data types produced by plugins that must run: walk down from target, stop at stored types"""
    prov = {}
    for n in spec:
        for p in g.provides_of(n):
            prov[p] = n
    need = set()

    def rec(t):
        if t in stored or t in need:
            return
        n = prov[t]
        for p in g.provides_of(n):
            if p not in stored:
                need.add(p)
        for dd in n["deps"]:
            rec(dd)

    rec(target)
    return need


def subsets_for(spec, tier):
    types = [t for t in g.all_types(spec) if t != g.final_target(spec)]
    out = []
    for k in range(len(types) + 1):
        for c in itertools.combinations(types, k):
            out.append(frozenset(c))
    return out


def params(tier):
    return dict(maxn=3, G=4) if tier == "quick" else dict(maxn=3, G=4)


def plan(tier, seed):
    cat = g.catalogue()
    jobs = []
    p = params(tier)
    NSH = 12 if tier == "quick" else 48
    for gname in cat:
        two = gname == "twokind"
        mn, G = (2, 2 if tier == "quick" else 3) if two else (p["maxn"], p["G"])
        for sh in range(NSH):
            jobs.append(("enum", gname, mn, G, sh, NSH, tier, seed))
    # schedule slice
    if tier == "quick":
        for gname in ("chain2", "multi_used", "diamond"):
            for i in range(2):
                jobs.append(("sched", gname, i, 1, tier))
    else:
        for gname in cat:
            for i in range(3):
                jobs.append(("sched", gname, i, 1, tier))
        for gname in ("chain2", "multi_used"):
            jobs.append(("sched", gname, 0, 2, tier))
    return jobs


SCHED_INPUTS = [
    dict(iv=((0, 1), (2, 3)), bounds=(0, 2, 4)),
    dict(iv=((0, 1), (1, 2), (3, 4)), bounds=(0, 1, 2, 4)),
    dict(iv=((0, 2),), bounds=(0, 0, 2, 3)),
]


def worker_init():
    vsched.install()
    g.quiet()


def run_job(job):
    res = Result()
    cat = g.catalogue()
    if job[0] == "enum":
        _, gname, mn, G, sh, nsh, tier, seed = job
        spec = cat[gname]
        cells = CELLS_QUICK if tier == "quick" else CELLS_THOROUGH
        subs = subsets_for(spec, tier)
        for i, sources in enumerate(inputs_for(gname, spec, mn, G)):
            if i % nsh != sh:
                continue
            # the full product (cells x subsets) per input is ~10^6 pipeline runs and out of reach: quick gives every input one
            # (cell, stored subset) combination, thorough six, rotating so that every pair is met by many inputs
            ncomb = 1 if tier == "quick" else 6
            combos = [(cells[(i + k + seed) % len(cells)], subs[(i // len(cells) + 3 * k + seed) % len(subs)]) for k in range(ncomb)]
            for cell, stored in combos:
                if cell[3] == 1 and any(len(n["deps"]) >= 2 for n in spec):
                    # the property is stated for "capacity above the largest plugin lag": a plugin with two inputs lags one
                    # chunk behind on one of them (e.g. while draining a trailing zero-duration chunk), so capacity 1 is
                    # outside the stated domain for diamond / multi_merge / twokind (it is kept for the single-input graphs)
                    continue
                res.evals += 1
                nrows = sum(len(s["iv"]) for s in sources.values())
                nch = max(len(s["bounds"]) - 1 for s in sources.values())
                if nrows >= 1 and nch >= 2:
                    res.nt(gname, tuple(sorted((k, v["iv"], v["bounds"]) for k, v in sources.items())), cell, tuple(sorted(stored)))
                res.add_set("cell_subset_pairs", (cell, tuple(sorted(stored))))
                run_case(res, gname, spec, sources, cell, stored, two_frontends=(i // nsh + seed) % 3 == 0)
            res.sample(dict(graph=gname, sources=sources, cells=len(cells), stored_subsets=len(subs)), cap=1)
        res.count("cases_" + gname, res.evals)
    else:
        _, gname, idx, bound, tier = job
        spec = cat[gname]
        srcs = [n["name"] for n in spec if n["kind"] == "source"]
        sources = {s: SCHED_INPUTS[(idx + k) % len(SCHED_INPUTS)] for k, s in enumerate(srcs)}
        if len(srcs) == 2:
            sources = {"ev": dict(iv=((0, 2), (2, 4)), bounds=(0, 2, 4)), "th": dict(iv=((0, 1), (1, 2), (3, 4)), bounds=(0, 1, 4))}
        cell = ("threaded_mailbox", None, idx % 2 == 0, 2, 2 if idx == 1 else None, False)
        stored = frozenset()
        r = schedule_slice(res, gname, spec, sources, cell, stored, bound)
        res.evals += r.executions
        res.count("sched_executions", r.executions)
        res.count("sched_configs")
        res.nt("sched", gname, idx, bound)
        res.sample(dict(graph=gname, schedule_exploration=dict(regime="delay", bound=bound, executions=r.executions, sources=sources, cell=cell)), cap=1)
    return res


class SchedHarness(explore.Harness):
    def __init__(self, res, gname, spec, sources, cell, stored):
        self.a = (res, gname, spec, sources, cell, stored)
        self.r2 = Result()

    def main(self):
        res, gname, spec, sources, cell, stored = self.a

        def runner_(fn):
            return fn()

        run_case(self.r2, gname, spec, sources, cell, stored, explore_sched=runner_)

    def final(self, s):
        if self.r2.violations:
            v = self.r2.violations[0]
            return v["fingerprint"], v["fingerprint"] + " :: " + v["what"]
        if s.uncaught:
            return "uncaught", f"uncaught exception in {s.uncaught[0][0]}: {s.uncaught[0][1]!r}"
        return "ok", None


def schedule_slice(res, gname, spec, sources, cell, stored, bound):
    mk = lambda: SchedHarness(res, gname, spec, sources, cell, stored)
    r = explore.explore(mk, regime="delay", bound=bound, hashing=False, max_execs=20000)
    if r.cap_hit:
        res.caps_hit.append(f"sched {gname}: {r.cap_hit}")
    for kind, msg, choices in r.violations[:3]:
        fp = msg.split(" :: ")[0] if " :: " in msg else f"{kind}:{gname}"
        res.violation("sched:" + fp, msg[:400], dict(graph=gname, sources=sources, cell=cell, stored=sorted(stored), choices=choices))
    return r


def replay(case):
    vsched.install()
    g.quiet()
    res = Result()
    spec = g.catalogue()[case["graph"]]
    tup = lambda x: tuple(tup(y) for y in x) if isinstance(x, list) else x
    sources = {k: dict(iv=tup(v["iv"]), bounds=tup(v["bounds"])) for k, v in case["sources"].items()}
    cell = tuple(case["cell"])
    stored = frozenset(case["stored"])
    if "choices" in case:
        mk = lambda: SchedHarness(res, case["graph"], spec, sources, cell, stored)
        h, s, info = explore.replay(mk, case["choices"])
        key, viol = h.final(s)
        if s.deadlock:
            viol = viol or "deadlock"
        return [dict(fingerprint="sched:" + str(key), what=viol)] if viol else []
    run_case(res, case["graph"], spec, sources, cell, stored, two_frontends=case.get("two_frontends", False))
    return res.violations


def sanity(total, tier):
    for gname in g.catalogue():
        if total.counters.get("cases_" + gname, 0) < 50:
            return f"graph {gname}: only {total.counters.get('cases_'+gname,0)} cases"
    if total.counters.get("sched_executions", 0) < 50:
        return "schedule slice explored fewer than 50 executions"
    if total.counters.get("two_frontend_cases", 0) < 200:
        return "fewer than 200 cases with a second writable frontend"
