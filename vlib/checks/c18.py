"""C18 - hit finding and data reduction keep exactly the samples they should."""
import itertools
import numpy as np
import strax
from vlib.runner import Result

ID = "C18"
LEVEL = "exploration"
RULE = (
    "every integer waveform over {0,1,2,3} of length 1..L cut into fragments of SPR samples (1-3 fragments per pulse, last one "
    "shorter) in 1-2 channels x thresholds {scalar 1,2,3; per-channel; noise-scaled via baseline_rms} x baselines with "
    "fractional part {0, .5, .25}; find_hits vs the definitional hit finder (maximal in-record runs >= threshold with time, "
    "length, area incl. baseline fraction, height, first-maximum time, record index, left/right); cut_outside_hits for every "
    "(left, right) extension in 0..SPR vs 'keep exactly the samples within the extensions of a hit, continuing into the linked "
    "neighbour fragment; zero everything else; metadata untouched'; record_links vs time-adjacency definition incl. removed "
    "fragments and foreign channels; baseline / integrate / zero_out_of_bounds vs their formulas. "
    "non-trivial: waveform has at least one sample >= 1 and one below the threshold; distinct by waveform x configuration."
)
ASSUMPTIONS = ["amplitude alphabet {0..3}; positive thresholds", "pulses of one batch are separate pulses laid out in time (alternating channels), so one call checks thousands of waveforms", "the 'randomly beyond' clause of the quantifier is not covered", "cut_baseline is not exercised: with the installed numba it fails to compile for every input ('astype' on an int16 scalar), which is an environment incompatibility visible on first use, not a semantic question"]
BOUNDS = {"quick": "all waveforms of length <=7 with SPR=3 (1-3 fragments) and length <=6 with SPR=4", "thorough": "length <=8 (SPR=3) and <=8 (SPR=4), two channels, all extension pairs"}


def build_records(wfs, spr, nch, bl_frac=0.0, rms=0.0, dt=2):
    """one pulse per waveform, pulse p in channel p % nch, starting at time p*100; -> records, owner (pulse idx per record)"""
    nrec = sum(-(-len(w) // spr) for w in wfs)
    r = np.zeros(nrec, strax.record_dtype(spr))
    owner = np.zeros(nrec, np.int64)
    k = 0
    for p, w in enumerate(wfs):
        L = len(w)
        t0 = p * 1000
        for f in range(-(-L // spr)):
            seg = w[f * spr : (f + 1) * spr]
            r[k]["time"] = t0 + f * spr * dt
            r[k]["dt"] = dt
            r[k]["length"] = len(seg)
            r[k]["channel"] = p % nch
            r[k]["pulse_length"] = L
            r[k]["record_i"] = f
            r[k]["baseline"] = 100 + bl_frac
            r[k]["baseline_rms"] = rms
            r[k]["data"][: len(seg)] = seg
            owner[k] = p
            k += 1
    return r, owner


def ref_hits(records, min_amp, min_hon):
    out = []
    for ri, r in enumerate(records):
        ch = r["channel"]
        thr = max(min_amp[ch], float(r["baseline_rms"]) * min_hon[ch])
        n = int(r["length"])
        x = r["data"][:n]
        i = 0
        bf = float(r["baseline"]) % 1
        while i < n:
            if x[i] >= thr:
                j = i
                while j < n and x[j] >= thr:
                    j += 1
                seg = x[i:j].astype(np.int64)
                h = int(seg.max())
                am = int(np.argmax(seg))
                out.append(dict(time=int(r["time"]) + i * int(r["dt"]), length=j - i, dt=int(r["dt"]), channel=int(ch), record_i=ri, left=i, right=j,
                                area=np.float32(int(seg.sum()) + (j - i) * bf), height=np.float32(h + bf), max_time=int(r["time"]) + (i + am) * int(r["dt"]), threshold=np.float32(thr)))
                i = j
            else:
                i += 1
    return out


def check_hits(res, wfs, spr, nch, thr_cfg, bl_frac, tag):
    rms = 1.0 if thr_cfg[0] == "noise" else 0.0
    records, owner = build_records(wfs, spr, nch, bl_frac, rms)
    if thr_cfg[0] == "scalar":
        amp, hon = thr_cfg[1], 0
        amp_a, hon_a = [thr_cfg[1]] * nch, [0] * nch
    elif thr_cfg[0] == "perch":
        amp = np.array(thr_cfg[1][:nch], dtype=float)
        hon = 0
        amp_a, hon_a = list(amp), [0] * nch
    else:  # noise scaled: threshold = max(1, rms * k)
        amp, hon = 1, np.array([thr_cfg[1]] * nch, dtype=float)
        amp_a, hon_a = [1] * nch, [thr_cfg[1]] * nch
    case = dict(sub="hits", spr=spr, nch=nch, thr=thr_cfg, bl_frac=bl_frac, n_waveforms=len(wfs))
    try:
        hits = strax.find_hits(records, min_amplitude=amp, min_height_over_noise=hon)
    except Exception as e:
        res.violation(f"find_hits:raised:{type(e).__name__}", f"{tag}: {e}"[:300], case)
        return records, None
    exp = ref_hits(records, amp_a, hon_a)
    res.count("hits_compared", len(exp))
    fields = ("time", "length", "dt", "channel", "record_i", "left", "right", "area", "height", "max_time", "threshold")
    if len(hits) != len(exp):
        # find the first pulse that differs
        bad = first_diff_pulse(hits, exp, owner, wfs)
        res.violation("find_hits:count", f"{tag}: {len(hits)} hits found, definition gives {len(exp)}; first differing waveform {bad}", dict(case, waveform=bad))
        return records, hits
    for f in fields:
        e = np.array([h[f] for h in exp], dtype=hits[f].dtype if len(exp) else None)
        if not np.array_equal(hits[f], e):
            k = int(np.argmax(hits[f] != e))
            wf = wfs[owner[exp[k]["record_i"]]]
            res.violation(f"find_hits:{f}", f"{tag}: hit {k} field {f} = {hits[f][k]} expected {e[k]} (waveform {list(wf)}, spr {spr})", dict(case, waveform=list(map(int, wf))))
            return records, hits
    return records, hits


def first_diff_pulse(hits, exp, owner, wfs):
    from collections import Counter

    a = Counter(int(owner[h]) for h in hits["record_i"])
    b = Counter(int(owner[h["record_i"]]) for h in exp)
    for p in range(len(wfs)):
        if a.get(p, 0) != b.get(p, 0):
            return list(map(int, wfs[p]))
    return None


def ref_links(records, spr):
    n = len(records)
    prev = -np.ones(n, np.int32)
    nxt = -np.ones(n, np.int32)
    last = {}
    for i, r in enumerate(records):
        ch = int(r["channel"])
        if ch in last:
            j = last[ch]
            if r["record_i"] != 0 and int(r["time"]) == int(records[j]["time"]) + spr * int(records[j]["dt"]):
                prev[i] = j
                nxt[j] = i
        last[ch] = i
    return prev, nxt


def ref_cut(records, hits, le, re, spr):
    new = records.copy()
    new["data"] = 0
    new["reduction_level"] = strax.ReductionLevel.HITS_ONLY
    prev, nxt = ref_links(records, spr)
    for h in hits:
        ri = int(h["record_i"])
        r = records[ri]
        a, b = int(h["left"]) - le, int(h["right"]) + re
        lo, hi = max(a, 0), min(b, int(r["length"]))
        if hi > lo:
            new[ri]["data"][lo:hi] = r["data"][lo:hi]
        if a < 0 and prev[ri] != -1:
            k = prev[ri]
            new[k]["data"][spr + a :] = records[k]["data"][spr + a :]
        if b > spr and nxt[ri] != -1:
            k = nxt[ri]
            new[k]["data"][: b - spr] = records[k]["data"][: b - spr]
    return new


def check_cut(res, records, hits, spr, wfs, owner_tag, exts):
    for le, re in exts:
        res.evals += 1
        case = dict(sub="cut", spr=spr, le=le, re=re, tag=owner_tag)
        try:
            got = strax.cut_outside_hits(records.copy(), hits, left_extension=le, right_extension=re)
        except Exception as e:
            res.violation(f"cut_outside_hits:raised:{type(e).__name__}", f"{e}"[:300], case)
            continue
        exp = ref_cut(records, hits, le, re, spr)
        for f in records.dtype.names:
            if not np.array_equal(got[f], exp[f]):
                k = int(np.argmax([not np.array_equal(got[f][i], exp[f][i]) for i in range(len(got))]))
                tag = "data" if f == "data" else "metadata"
                res.violation(f"cut_outside_hits:{tag}", f"ext ({le},{re}) record {k} field {f}: got {got[f][k].tolist()} expected {exp[f][k].tolist()}; original {records['data'][k].tolist()} length {records['length'][k]} record_i {records['record_i'][k]}", case)
                break


def job_waveforms(res, L, spr, shard, nshards, tier):
    alph = (0, 1, 2, 3)
    allw = [np.array(w, dtype=np.int16) for i, w in enumerate(itertools.product(alph, repeat=L)) if i % nshards == shard]
    if not allw:
        return
    cfgs = [(("scalar", 1), 0.0), (("scalar", 2), 0.5), (("scalar", 3), 0.25), (("perch", (1, 3)), 0.0), (("noise", 2), 0.5)]
    for nch in (1, 2):
        for thr_cfg, blf in cfgs:
            if thr_cfg[0] == "perch" and nch == 1:
                continue
            res.evals += len(allw)
            for w in allw[:: max(1, len(allw) // 50)]:
                res.nt(L, spr, nch, thr_cfg, tuple(int(x) for x in w))
            res.count("waveform_configs", len(allw))
            records, hits = check_hits(res, allw, spr, nch, thr_cfg, blf, f"L={L} spr={spr} nch={nch} thr={thr_cfg}")
            if hits is None:
                continue
            # data reduction on the same batch
            if thr_cfg in (("scalar", 2), ("perch", (1, 3))) or tier == "thorough":
                exts = [(a, b) for a in range(spr + 1) for b in range(spr + 1)]
                if tier == "quick":
                    exts = [e for k, e in enumerate(exts) if (k + L) % 2 == 0 or e in ((0, 0), (spr, spr), (0, spr), (spr, 0))]
                check_cut(res, records, hits, spr, allw, f"L={L} nch={nch} thr={thr_cfg}", exts)
    res.sample(dict(sub="waveforms", length=L, samples_per_record=spr, example=[int(x) for x in allw[len(allw) // 2]]), cap=1)


def job_links(res):
    """record_links with removed fragments, interleaved channels and time jumps"""
    spr, dt = 3, 2
    # sequences of (channel, record_i, time offset class): enumerate all sequences of <=4 records
    opts = [(ch, ri, tj) for ch in (0, 1) for ri in (0, 1, 2) for tj in (0, 1)]  # tj=1: not adjacent in time
    n = 0
    for k in (1, 2, 3, 4):
        for seq in itertools.product(opts, repeat=k):
            if k == 4 and (hash(seq) % 7):
                continue
            n += 1
            r = np.zeros(k, strax.record_dtype(spr))
            tlast = {}
            t = 0
            for i, (ch, ri, tj) in enumerate(seq):
                if ch in tlast and not tj:
                    ti = tlast[ch] + spr * dt
                else:
                    ti = t + 100
                t = max(t, ti)
                r[i]["time"], r[i]["dt"], r[i]["length"], r[i]["channel"], r[i]["record_i"] = ti, dt, spr, ch, ri
                tlast[ch] = ti
            order = np.argsort(r["time"], kind="mergesort")
            r = r[order]
            res.evals += 1
            res.nt("links", seq)
            p, nx = strax.record_links(r)
            ep, en = ref_links(r, spr)
            if not (np.array_equal(p, ep) and np.array_equal(nx, en)):
                res.violation("record_links:wrong", f"records (ch,record_i,time) {[(int(x['channel']), int(x['record_i']), int(x['time'])) for x in r]}: got prev {p.tolist()} next {nx.tolist()}, expected {ep.tolist()} {en.tolist()}", dict(sub="links", seq=seq))
                return
    res.count("link_sequences", n)
    res.sample(dict(sub="record_links", sequences=n), cap=1)


def job_baseline(res):
    """baseline / integrate / zero_out_of_bounds / cut_baseline vs formulas on all raw waveforms of length<=5 over {98..101}"""
    spr = 3
    for L in (1, 2, 3, 4, 5):
        for w in itertools.product((98, 99, 100, 101), repeat=L):
            for nbase in (1, 2):
                res.evals += 1
                res.nt("bl", w, nbase)
                wf = np.array(w, np.int16)
                r, _ = build_records([wf], spr, 1)
                r["baseline"] = 0
                raw = r.copy()
                strax.baseline(r, baseline_samples=nbase, flip=True)
                bl = np.float32(raw[0]["data"][:nbase].astype(np.float64).mean())
                rms = np.float32(raw[0]["data"][:nbase].astype(np.float64).std())
                case = dict(sub="baseline", waveform=list(w), baseline_samples=nbase)
                for k in range(len(r)):
                    n = int(r[k]["length"])
                    exp = np.zeros(spr, np.int16)
                    exp[:n] = -(raw[k]["data"][:n] - int(bl))
                    if not np.array_equal(r[k]["data"], exp) or r[k]["baseline"] != bl or abs(r[k]["baseline_rms"] - rms) > 1e-6:
                        res.violation("baseline:wrong", f"record {k}: data {r[k]['data'].tolist()} baseline {r[k]['baseline']} expected {exp.tolist()} {bl}", case)
                        break
                strax.integrate(r)
                for k in range(len(r)):
                    n = int(r[k]["length"])
                    expa = int(r[k]["data"].sum()) + int(round((float(r[k]["baseline"]) % 1) * n))
                    if int(r[k]["area"]) != expa:
                        res.violation("integrate:wrong", f"record {k}: area {r[k]['area']} expected {expa}", case)
                        break
                # zero_out_of_bounds / cut_baseline
                z = raw.copy()
                z["data"][:] = 7
                strax.zero_out_of_bounds(z)
                for k in range(len(z)):
                    n = int(z[k]["length"])
                    if not (np.all(z[k]["data"][:n] == 7) and np.all(z[k]["data"][n:] == 0)):
                        res.violation("zero_out_of_bounds:wrong", f"record {k}: {z[k]['data'].tolist()} length {n}", case)
    res.sample(dict(sub="baseline", note="all raw waveforms of length<=5 over {98..101}"), cap=1)


def plan(tier, seed):
    jobs = []
    if tier == "quick":
        specs = [(L, 3) for L in range(1, 8)] + [(L, 4) for L in range(1, 7)]
    else:
        specs = [(L, 3) for L in range(1, 9)] + [(L, 4) for L in range(1, 9)]
    for L, spr in specs:
        ns = 1 if L <= 5 else (4 if L == 6 else (16 if L == 7 else 48))
        for sh in range(ns):
            jobs.append(("wf", L, spr, sh, ns, tier))
    jobs.append(("links",))
    jobs.append(("baseline",))
    jobs.sort(key=lambda j: -(j[1] if len(j) > 1 else 0))
    return jobs


def run_job(job):
    res = Result()
    if job[0] == "wf":
        job_waveforms(res, *job[1:])
    elif job[0] == "links":
        job_links(res)
    else:
        job_baseline(res)
    return res


def replay(case):
    res = Result()
    if case.get("sub") in ("hits",) and case.get("waveform"):
        w = [np.array(case["waveform"], np.int16)]
        thr = case["thr"]
        thr = (thr[0], tuple(thr[1]) if isinstance(thr[1], list) else thr[1])
        # the waveform as pulse 0 and (for two channels) as pulse 1 too
        check_hits(res, w * case["nch"], case["spr"], case["nch"], thr, case["bl_frac"], "replay")
    elif case.get("sub") == "links":
        job_links(res)
    elif case.get("sub") == "baseline":
        job_baseline(res)
    else:
        for L in range(1, 7):
            job_waveforms(res, L, case.get("spr", 3), 0, 1, "quick")
    return res.violations


def sanity(total, tier):
    if total.counters.get("hits_compared", 0) < 10000:
        return "fewer than 10000 hits compared"
    if total.counters.get("link_sequences", 0) < 1000:
        return "too few record_links sequences"
