"""C14 - a superrun is exactly the ordered concatenation of its subruns."""
import datetime, itertools, json, os, warnings
import numpy as np
import pytz
import strax
from bson import json_util
from vlib.runner import Result
from vlib import graphs as g, ctxrun, vsched, smallscope as ss

ID = "C14"
LEVEL = "exploration"
RULE = (
    "1..3 subruns (run metadata written through the DataDirectory frontend, superrun defined with define_run) x per-subrun chunk "
    "layouts (1..3 chunks, rows at chunk edges, time gaps between subruns) x a 3-level graph src -> lv1 -> lv2 with the "
    "superrun-capable level at depth 1 or 2 x write_superruns on/off x rechunking with targets that cut inside and across "
    "subruns x processor x {run names whose string order equals / differs from the order of run start} x {dead time between "
    "subruns, back-to-back subruns} x {rows on the grid, rows 500 ns off the grid so that the rechunker cuts exactly on subrun "
    "borders} x {subruns listed in / against start order} x rechunk_on_load {off, 1, 2 rows} x {single-kind chain, second-level "
    "plugin consuming two data kinds of which one is rechunked across subrun borders, optionally made and stored first}; "
    "histories: make/get, re-read from a fresh context, redefine with fewer subruns / with the same runs but a time-range "
    "selection (aligned with chunk borders) inside the first subrun and the other subruns complete - rows checked on the fly and re-read. oracle: "
    "superrun rows == concatenation of the subruns' rows in order of run start (on the fly and re-read); every yielded and "
    "stored chunk lists exactly the subruns that contributed rows or time to it, each span inside that subrun's range, "
    "containing the chunk's rows of that run and intersecting the chunk; spans of one run over consecutive chunks are adjacent; "
    "after redefinition the storage key differs and previously stored superrun data is unavailable. non-trivial: >=2 subruns; distinct by configuration."
)
ASSUMPTIONS = ["small scope: <=3 subruns, <=3 chunks and <=3 rows each", "subrun time ranges are disjoint and ordered by run start (define_run sorts by the run documents' start)"]
BOUNDS = {"quick": "all layouts of <=3 subruns from a 7-layout menu x 2 levels; write / rechunk / processor / history and the 8 extension dimensions rotate (one combination per case, all pairs of values covered over the run)", "thorough": "9-layout menu, full product of layouts x level x write x rechunk x processor, 4 extension combinations per case"}
U = g.SCALE
GAP = 5  # grid steps between subruns

# per-subrun layouts on a local grid 0..4: (rows, chunk bounds)
LAYOUTS = [
    (((0, 1), (2, 3)), (0, 4)),
    (((0, 1), (2, 3)), (0, 2, 4)),
    (((0, 2), (2, 3), (3, 4)), (0, 2, 3, 4)),
    (((1, 2),), (0, 1, 4)),
    ((), (0, 4)),
    (((0, 1), (1, 2), (3, 4)), (0, 1, 4)),
    (((0, 1), (3, 4)), (0, 2, 2, 4)),  # zero-duration chunk in the middle
    (((0, 4),), (0, 4)),
    (((0, 1), (1, 2), (2, 3)), (0, 4)),
]

CUR = {"runs": {}}


def dt(name):
    return g.dt_for(name)


class Src(strax.Plugin):
    provides = "src"
    depends_on = ()
    dtype = dt("src")
    data_kind = "k_src"
    rechunk_on_save = False
    __version__ = "0"

    def source_finished(self):
        return True

    def is_ready(self, chunk_i):
        return chunk_i < len(CUR["runs"][self.run_id]["bounds"]) - 1

    def compute(self, chunk_i):
        r = CUR["runs"][self.run_id]
        off = r["offset"]
        rows = g.src_rows("src", r["iv"], U, off * U)
        rows["rid"] += 100 * int(self.run_id)
        rows["time"] += r.get("shift", 0)
        b = r["bounds"]
        idx = ss.assign_rows(r["iv"], b)[chunk_i]
        return self.chunk(start=(off + b[chunk_i]) * U, end=(off + b[chunk_i + 1]) * U, data=rows[idx] if idx else rows[:0])


def mk_level(name, dep, allow, rc, rol=None, kind="k_src"):
    def compute(self, **kw):
        (x,) = kw.values()
        return g.f_map(name, dep, x)

    a = dict(provides=name, depends_on=(dep,), dtype=dt(name), data_kind=kind, allow_superrun=allow, compute=compute, __version__="0")
    if rc is None:
        a["rechunk_on_save"] = False
    else:
        a["rechunk_on_save"] = True
        a["chunk_target_size_mb"] = g.target_size_rows(rc, name) if rc else 200
    if rol:
        a["rechunk_on_load"] = True
        a["chunk_source_size_mb"] = g.target_size_rows(rol, name)
    return type("Lv_" + name, (strax.Plugin,), a)


def mk_consumer():
    """second-level plugin fed by two data kinds: lv1 (possibly rechunked across subrun borders) and sb (never rechunked)"""

    def compute(self, k_src, k_b):
        return g._out(k_src, "cc", k_src["v_lv1"] + 3 * k_b["v_sb"])

    return type("Lv_cc", (strax.Plugin,), dict(provides="cc", depends_on=("lv1", "sb"), dtype=dt("cc"), data_kind="k_src", allow_superrun=True,
                                               rechunk_on_save=False, compute=compute, __version__="0"))


NAMES = (("1", "2", "3"), ("9", "10", "11"))  # the second scheme sorts differently as strings than by run start
EXT0 = dict(nm=0, gap=5, shift=0, rev=False, rol=None, twokind=False, premake=False, redef="fewer")


def write_run_doc(d, run_id, t0, t1):
    base = datetime.datetime(2020, 1, 1, tzinfo=pytz.utc)
    doc = dict(name=run_id, start=base + datetime.timedelta(seconds=int(t0)), end=base + datetime.timedelta(seconds=int(t1)), mode="m", source="s")
    with open(os.path.join(d, f"{run_id}-metadata.json"), "w") as f:
        json.dump(doc, f, sort_keys=True, indent=4, default=json_util.default)


def subrun_rows(run_id, lay, off, shift=0):
    rows = g.src_rows("src", lay[0], U, off * U)
    rows["rid"] += 100 * int(run_id)
    rows["time"] += shift
    return rows


def check_chunk_annotations(res, chunks, runs, order, case, where):
    where = f"{where}:level{case['level']}"
    """chunks of a superrun data type: subruns bookkeeping"""
    ranges = {r: ((runs[r]["offset"] + runs[r]["bounds"][0]) * U, (runs[r]["offset"] + runs[r]["bounds"][-1]) * U) for r in order}
    last_end = {}
    for ci, c in enumerate(chunks):
        sub = c.subruns if hasattr(c, "subruns") else c
        start, end, data = (c.start, c.end, c.data) if hasattr(c, "data") else (c["start"], c["end"], None)
        if not sub and start == end:
            # a zero-duration chunk holds no rows and no time span of any subrun; strax drops empty spans from the annotation
            # by design (_pop_out_empty_run_id), so there is nothing it could record
            res.count("zero_duration_chunks_without_annotation")
            continue
        if not sub:
            res.violation(f"subruns:missing:{where}", f"chunk {ci} [{start},{end}) has no subruns annotation", case)
            return
        listed = list(sub.keys())
        for r in listed:
            if r not in ranges:
                res.violation(f"subruns:unknown-run:{where}", f"chunk {ci} lists run {r}", case)
                return
            s, e = sub[r]["start"], sub[r]["end"]
            rs, re_ = ranges[r]
            if s < rs or e > re_ or s > e:
                res.violation(f"subruns:span-outside-run:{where}", f"chunk {ci}: run {r} span [{s},{e}) outside the subrun's range [{rs},{re_})", case)
                return
            if (s < start or e > end) and end > start:
                res.violation(f"subruns:span-outside-chunk:{where}", f"chunk {ci} [{start},{end}) records run {r} with span [{s},{e}), which reaches outside the chunk (it cannot have been built from that)", case)
                return
            if not (s < end and e > start) and not (s == e == start) and end > start:
                res.violation(f"subruns:stale-run:{where}", f"chunk {ci} [{start},{end}) lists run {r} with span [{s},{e}) that does not intersect the chunk (it contributed nothing)", case)
                return
            if r in last_end and last_end[r] != s and last_end[r] is not None:
                res.violation(f"subruns:not-adjacent:{where}", f"chunk {ci}: run {r} span starts at {s}, previous chunk's span of that run ended at {last_end[r]}", case)
                return
            last_end[r] = e
        if data is not None and len(data):
            for r in order:
                m = data["rid"] // 100 == int(r)
                if m.any():
                    if r not in sub:
                        res.violation(f"subruns:contributor-not-listed:{where}", f"chunk {ci} holds rows of run {r} but lists only {listed}", case)
                        return
                    if data["time"][m].min() < sub[r]["start"] or strax.endtime(data[m]).max() > sub[r]["end"]:
                        res.violation(f"subruns:rows-outside-span:{where}", f"chunk {ci}: rows of run {r} outside its recorded span", case)
                        return
        if listed != [r for r in order if r in listed] and not where.startswith("stored-metadata"):  # key order inside stored JSON carries no meaning
            res.violation(f"subruns:order:{where}", f"chunk {ci} lists runs {listed} out of run order", case)
            return


ZDC = "zero-duration-chunk"


def xfp(zdc, stage, e):
    """fingerprint of an exception.  Inputs in which a subrun holds a zero-duration chunk form their own class, identified by
    the innermost strax call site only (see known_findings.json): strax treats such chunks inconsistently in several places."""
    if zdc:
        return f"{ZDC}:{ctxrun.exc_fp(e, 1)}"
    return f"{stage}:{ctxrun.exc_fp(e, 3)}"


def run_case(res, lays, level, write, rc, proc, history, ext=None):
    """lays: tuple of layout indices (one per subrun); level: 1 -> lv1 and lv2 allow superruns; 2 -> only lv2
    ext: run naming scheme, gap between subruns (0 = back to back), row shift (500 ns: the rechunker then cuts exactly on grid
    points, i.e. possibly exactly at a subrun start), definition order reversed, rechunk_on_load source size, two-kind consumer"""
    ext = dict(EXT0, **(ext or {}))
    case = dict(layouts=lays, level=level, write=write, rechunk=rc, processor=proc, history=history, ext=ext)
    zdc = any(b[i] == b[i + 1] for li in lays for b in [LAYOUTS[li][1]] for i in range(len(b) - 1))
    d = ctxrun.fresh_dir("c14")
    runs = {}
    off = 1
    order = []
    for i, li in enumerate(lays):
        rid = NAMES[ext["nm"]][i]
        iv, b = LAYOUTS[li]
        runs[rid] = dict(iv=iv, bounds=b, offset=off, shift=ext["shift"], lay=li)
        order.append(rid)
        off += b[-1] + ext["gap"]
    CUR["runs"] = runs
    classes = [Src, mk_level("lv1", "src", level == 1, rc, ext["rol"]), mk_level("lv2", "lv1", True, rc, ext["rol"])]
    if ext["twokind"]:
        classes += [mk_level("sb", "src", level == 1, None, None, kind="k_b"), mk_consumer()]

    def ctx():
        st = strax.Context(storage=[strax.DataDirectory(d, provide_run_metadata=True, deep_scan=True)], register=classes,
                           **dict(g.CTX_DEFAULTS, write_superruns=write, allow_rechunk=rc is not None))
        return st

    exp, exp_cc = {}, {}
    for rid in order:
        s = subrun_rows(rid, LAYOUTS[runs[rid]["lay"]], runs[rid]["offset"], ext["shift"])
        l1 = g.f_map("lv1", "src", s)
        exp[rid] = g.f_map("lv2", "lv1", l1)
        exp_cc[rid] = g._out(l1, "cc", l1["v_lv1"] + 3 * g.f_map("sb", "src", s)["v_sb"])
        write_run_doc(d, rid, runs[rid]["offset"], runs[rid]["offset"] + runs[rid]["bounds"][-1])
    want = np.concatenate([exp[r] for r in order])
    st = ctx()
    name = "_sup"
    given = order[::-1] if ext["rev"] else order  # define_run must put the subruns in order of run start itself

    def call(f):
        with warnings.catch_warnings():
            warnings.simplefilter("ignore")
            return ctxrun.run_controlled(f)  # making the subruns goes through multi_run's (virtual) thread pool

    try:
        st.define_run(name, given)
        chunks = call(lambda: list(st.get_iter(name, "lv2", processor=proc, progress_bar=False, multi_run_progress_bar=False)))
    except ctxrun.Deadlock as e:
        res.violation("deadlock", str(e), case)
        return
    except Exception as e:
        res.violation(xfp(zdc, "superrun", e), f"making the superrun raised {type(e).__name__}: {e}"[:400], case)
        return
    got = ctxrun.concat(chunks)
    if not ctxrun.rows_equal(got, want):
        res.violation("rows:on-the-fly", f"superrun rows (rid) {got['rid'].tolist()} != ordered concatenation of subruns {want['rid'].tolist()}", case)
        return
    check_chunk_annotations(res, chunks, runs, order, case, "yielded")
    # per-subrun results unaffected
    st2 = ctx()
    for rid in order:
        try:
            a = call(lambda: st2.get_array(rid, "lv2", processor=proc, progress_bar=False, multi_run_progress_bar=False))
            if not ctxrun.rows_equal(a, exp[rid]):
                res.violation("rows:subrun", f"subrun {rid} rows differ from its own computation", case)
        except Exception as e:
            res.violation(xfp(zdc, "subrun", e), f"{type(e).__name__}: {e}"[:300], case)
    stored = st2.is_stored(name, "lv2")
    if write and not stored:
        res.violation("write_superruns:not-stored", "write_superruns=True but the superrun data type is not stored", case)
    if not write and stored:
        res.violation("write_superruns:stored", "write_superruns=False but superrun data was written", case)
    if stored:
        try:
            ch2 = call(lambda: list(st2.get_iter(name, "lv2", processor=proc, progress_bar=False, multi_run_progress_bar=False)))
            if not ctxrun.rows_equal(ctxrun.concat(ch2), want):
                res.violation("rows:re-read", "stored superrun re-reads to different rows", case)
            check_chunk_annotations(res, ch2, runs, order, case, "re-read")
            md = st2.get_metadata(name, "lv2")
            import types

            check_chunk_annotations(res, [types.SimpleNamespace(start=cm["start"], end=cm["end"], data=None, subruns=cm.get("subruns")) for cm in md["chunks"]],
                                    runs, order, case, "stored-metadata")
            # (with rechunk_on_load the re-read chunks are not the stored ones; their annotations were checked above)
            for ci, (cm, c) in enumerate(zip(md["chunks"], ch2) if not ext["rol"] else ()):
                if cm.get("subruns") != c.subruns:
                    res.violation("subruns:metadata-mismatch", f"chunk {ci}: stored subruns {cm.get('subruns')} != re-read chunk's {c.subruns}", case)
                    break
            res.count("stored_superruns")
        except Exception as e:
            res.violation(xfp(zdc, "re-read", e), f"{type(e).__name__}: {e}"[:300], case)
    # ---- a second-level consumer of two data kinds (one possibly rechunked across subrun borders, one never)
    if ext["twokind"]:
        st4 = ctx()
        try:
            if ext["premake"] and level == 1:
                for t in ("lv1", "sb"):
                    call(lambda: st4.make(name, t, processor=proc, progress_bar=False, multi_run_progress_bar=False))
            chc = call(lambda: list(st4.get_iter(name, "cc", processor=proc, progress_bar=False, multi_run_progress_bar=False)))
            if not ctxrun.rows_equal(ctxrun.concat(chc), np.concatenate([exp_cc[r] for r in order])):
                res.violation("rows:two-kind-consumer", "two-kind consumer of the superrun: rows differ from the ordered concatenation of the subruns' results", case)
            else:
                check_chunk_annotations(res, chc, runs, order, case, "two-kind")
            res.count("twokind_cases")
        except ctxrun.Deadlock as e:
            res.violation("deadlock:two-kind", str(e), case)
        except Exception as e:
            res.violation(xfp(zdc, "two-kind", e), f"{type(e).__name__}: {e}"[:300], case)
    # ---- redefine
    if history == "redefine" and (len(order) >= 2 or ext["redef"] == "range"):
        st3 = ctx()
        try:
            old_key = str(st3.key_for(name, "lv2"))
            if ext["redef"] == "range":
                # same run ids, but only a part of the first subrun is selected
                r0 = order[0]
                b0 = runs[r0]["bounds"]
                new_spec = {r: "all" for r in order}
                new_spec[r0] = [int((runs[r0]["offset"] + b0[-2]) * U), int((runs[r0]["offset"] + b0[-1]) * U)]
                st3.define_run(name, new_spec)
                new_order = None
                t0 = new_spec[r0][0]
                # the range is aligned with the subrun's own chunk borders and ends with the subrun: exactly the rows of the
                # first subrun that start at or after t0 remain, every other subrun ("all") is complete
                want_range = np.concatenate([exp[r0][exp[r0]["time"] >= t0]] + [exp[r] for r in order[1:]])
            else:
                new_order = order[:-1]
                st3.define_run(name, new_order[::-1] if ext["rev"] else new_order)
            if str(st3.key_for(name, "lv2")) == old_key:
                res.violation("redefine:same-key", f"after redefining {name} ({ext['redef']}) its storage key is unchanged", case)
            if stored and st3.is_stored(name, "lv2"):
                res.violation("redefine:stale-available", f"after redefining {name} ({ext['redef']}: {new_order}) the data stored for {order} is still reported available", case)
            if new_order is not None:
                a = call(lambda: st3.get_array(name, "lv2", processor=proc, progress_bar=False, multi_run_progress_bar=False))
                want2 = np.concatenate([exp[r] for r in new_order])
                if not ctxrun.rows_equal(a, want2):
                    res.violation("redefine:stale-rows", f"after redefinition rows {a['rid'].tolist()} expected {want2['rid'].tolist()}", case)
            elif len(want_range):
                for attempt in ("on-the-fly", "re-read"):
                    stx = st3 if attempt == "on-the-fly" else ctx()
                    a = call(lambda: stx.get_array(name, "lv2", processor=proc, progress_bar=False, multi_run_progress_bar=False))
                    if not ctxrun.rows_equal(a, want_range):
                        res.violation(f"range-selection:rows:{attempt}", f"superrun with subrun {r0} restricted to [{t0}, end) and the others complete: rows {a['rid'].tolist()} expected {want_range['rid'].tolist()}", case)
                        break
            res.count("redefinitions_" + ext["redef"])
        except Exception as e:
            res.violation(xfp(zdc, "redefine", e), f"{type(e).__name__}: {e}"[:300], case)
    res.add_set("n_chunks", len(chunks))


def cases(tier):
    menu = range(7) if tier == "quick" else range(len(LAYOUTS))
    out = []
    for n in (1, 2, 3):
        for lays in itertools.product(menu, repeat=n):
            if n == 3 and tier == "quick" and (lays[0] + 2 * lays[1] + 3 * lays[2]) % 4:
                continue
            out.append(lays)
    return out


def plan(tier, seed):
    NS = 32 if tier == "quick" else 128
    return [(sh, NS, tier, seed) for sh in range(NS)]


def worker_init():
    vsched.install()
    g.quiet()
    import strax.storage.files as F

    F.print = lambda *a, **k: None


RC = (None, 1, 2, 0)


def ext_for(k):
    """k-th combination of the extension dimensions (mixed radix, so consecutive k walk through all pairs quickly)"""
    return dict(nm=k % 2, gap=(5, 0)[(k // 2) % 2], shift=(0, 500)[(k // 4) % 2], rev=bool((k // 8) % 2), rol=(None, 1, 2)[(k // 3) % 3],
                twokind=bool((k // 5) % 2), premake=bool((k // 7) % 2), redef=("fewer", "range")[(k // 9) % 2])


def run_job(job):
    sh, ns, tier, seed = job
    res = Result()
    i = -1
    for lays in cases(tier):
        for level in (1, 2):
            i += 1
            if i % ns != sh:
                continue
            j = i // ns + seed
            if tier == "quick":
                combos = [(bool(j % 2), RC[(j // 2) % 4], ("single_thread", "threaded_mailbox")[(j // 8) % 2], ("plain", "redefine")[(j // 16) % 2]),
                          (not bool(j % 2), RC[(j // 2 + 1) % 4], ("single_thread", "threaded_mailbox")[(j // 8 + 1) % 2], "redefine")]
            else:
                combos = [(w, rc, p, "redefine") for w in (False, True) for rc in RC for p in ("single_thread", "threaded_mailbox")]
            for ci, (write, rc, proc, hist) in enumerate(combos):
                # extension dimensions: quick rotates one combination per case, thorough four per case
                for q in range(1 if tier == "quick" else 4):
                    ext = ext_for(3 * i + 7 * ci + 11 * q + seed)
                    res.evals += 1
                    if len(lays) >= 2:
                        res.nt(lays, level, write, rc, proc, hist, tuple(sorted(ext.items(), key=str)))
                    run_case(res, lays, level, write, rc, proc, hist, ext)
            if i % 53 == 0:
                res.sample(dict(subrun_layouts=[LAYOUTS[k] for k in lays], superrun_level=level, combos=combos[:1]), cap=2)
    return res


def replay(case):
    worker_init()
    res = Result()
    run_case(res, tuple(case["layouts"]), case["level"], case["write"], case["rechunk"], case["processor"], case["history"], case.get("ext"))
    return res.violations


def sanity(total, tier):
    if total.counters.get("stored_superruns", 0) < 20:
        return "fewer than 20 stored superruns were re-read"
    if len(total.sets.get("n_chunks", ())) < 3:
        return "superrun chunk counts hardly varied"
    for k in ("twokind_cases", "redefinitions_fewer", "redefinitions_range"):
        if total.counters.get(k, 0) < 10:
            return f"fewer than 10 {k}"
