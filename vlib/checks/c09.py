"""C09 - overlap-window plugins give chunking-independent results at chunk boundaries."""
import itertools, warnings
import numpy as np
import strax
from immutabledict import immutabledict
from vlib.runner import Result
from vlib import smallscope as ss, graphs as g, ctxrun

ID = "C09"
LEVEL = "exploration"
RULE = (
    "every disjoint sorted row set (<=N rows on a 0..G grid, rows longer than the window included) x every law-abiding "
    "chunking (many chunks shorter than the window, empty and zero-duration chunks) x windows (l,r) in {0..3}^2 (tuple and "
    "scalar form) x {one row per input row, one row per group} x {single-output, multi-output} through Context.get_iter "
    "(single-thread processor; the plugin logic is processor-independent and C01 covers the threaded wiring); oracle: "
    "concatenated output == one computation over the whole run, output chunks contiguous, multi-output chunks aligned. "
    "non-trivial: >=2 rows, >=2 chunks, window>0; distinct by input."
)
ASSUMPTIONS = ["small scope: <=4 rows, grid 0..6 (unit 600 ns), windows <=3 units", "window-local computations only (locality radius <= declared window by construction)"]
BOUNDS = {"quick": "rows<=3 on 0..5, all windows {0..3}^2, both modes; multi-output on a slice", "thorough": "rows<=4 on 0..6, all windows, both modes, single+multi output"}
U = g.SCALE


def f_ow(x, wl, wr, group):
    """window-local computation (same function for plugin and reference)"""
    t, e = x["time"], strax.endtime(x)
    n = len(x)
    nl = np.zeros(n, np.int64)
    nr = np.zeros(n, np.int64)
    idx = np.arange(n)
    for i in range(n):
        nl[i] = np.sum((e > t[i] - wl) & (t < t[i]) & (idx != i))
        nr[i] = np.sum((t < e[i] + wr) & (t >= e[i]) & (idx != i))
    return nl, nr


DT_OUT = np.dtype(strax.time_fields + [(("id", "rid"), np.int32), (("left", "nl"), np.int32), (("right", "nr"), np.int32)])
DT_OUT2 = np.dtype(strax.time_fields + [(("id", "rid"), np.int32), (("sum", "ns"), np.int32)])


def out_rows(x, wl, wr, group):
    nl, nr = f_ow(x, wl, wr, group)
    r = np.zeros(len(x), DT_OUT)
    r["time"], r["endtime"], r["rid"], r["nl"], r["nr"] = x["time"], strax.endtime(x), x["rid"], nl, nr
    if group:
        r = r[nl == 0]
    return r


def out_rows2(x, wl, wr, group):
    nl, nr = f_ow(x, wl, wr, group)
    r = np.zeros(len(x), DT_OUT2)
    r["time"], r["endtime"], r["rid"], r["ns"] = x["time"], strax.endtime(x), x["rid"], nl + nr
    return r


CUR = {}


class Src(strax.Plugin):
    provides = "src"
    depends_on = ()
    dtype = g.dt_for("src")
    data_kind = "k_src"
    rechunk_on_save = False
    save_when = strax.SaveWhen.NEVER
    __version__ = "0"

    def source_finished(self):
        return True

    def is_ready(self, chunk_i):
        return chunk_i < len(CUR["bounds"]) - 1

    def compute(self, chunk_i):
        b = CUR["bounds"]
        rows = g.src_rows("src", CUR["iv"])
        idx = ss.assign_rows(CUR["iv"], b)[chunk_i]
        return self.chunk(start=b[chunk_i] * U, end=b[chunk_i + 1] * U, data=rows[idx] if idx else rows[:0])


class OW(strax.OverlapWindowPlugin):
    provides = "ow"
    depends_on = ("src",)
    dtype = DT_OUT
    data_kind = "k_ow"
    save_when = strax.SaveWhen.NEVER
    __version__ = "0"

    def get_window_size(self):
        wl, wr = CUR["win"]
        if CUR["scalar"]:
            return max(wl, wr) * U
        return (wl * U, wr * U)

    def compute(self, k_src):
        wl, wr = CUR["win"]
        return out_rows(k_src, wl * U, wr * U, CUR["group"])


class OWM(strax.OverlapWindowPlugin):
    provides = ("owa", "owb")
    depends_on = ("src",)
    dtype = dict(owa=DT_OUT, owb=DT_OUT2)
    data_kind = immutabledict(owa="k_owa", owb="k_owb")
    save_when = immutabledict(owa=strax.SaveWhen.NEVER, owb=strax.SaveWhen.NEVER)
    __version__ = "0"

    def get_window_size(self):
        wl, wr = CUR["win"]
        return (wl * U, wr * U)

    def compute(self, k_src):
        wl, wr = CUR["win"]
        return dict(owa=out_rows(k_src, wl * U, wr * U, CUR["group"]), owb=out_rows2(k_src, wl * U, wr * U, False))


class Both(strax.Plugin):
    """consumes both outputs of the multi-output overlap plugin (different kinds), so their chunks must be mutually aligned"""

    provides = "both"
    depends_on = ("owa", "owb")
    dtype = strax.time_fields + [(("n of a", "na"), np.int32), (("n of b", "nb"), np.int32)]
    data_kind = "k_both"
    save_when = strax.SaveWhen.ALWAYS
    __version__ = "0"

    def compute(self, k_owa, k_owb, start, end):
        CUR["both"].append((start, end, tuple(k_owa["rid"]), tuple(k_owb["rid"])))
        r = np.zeros(1, self.dtype)
        r["time"], r["endtime"], r["na"], r["nb"] = start, max(end, start + 1) if end > start else start + 1, len(k_owa), len(k_owb)
        return r[:0]


_ST = {}


def ctx():
    if "st" not in _ST:
        _ST["st"] = strax.Context(storage=[], register=[Src, OW, OWM, Both], **g.CTX_DEFAULTS)
    return _ST["st"]


def check(res, iv, bounds, win, group, scalar, multi):
    case = dict(iv=iv, bounds=bounds, win=win, group=group, scalar=scalar, multi=multi)
    CUR.update(iv=iv, bounds=bounds, win=win, group=group, scalar=scalar, both=[])
    whole = g.src_rows("src", iv)
    wl, wr = win
    if scalar:
        wl = wr = max(win)
        # a scalar window w means (w, w); the computation is local within (wl, wr) <= (w, w)
        wl, wr = win
    exp = out_rows(whole, wl * U, wr * U, group)
    st = ctx()
    try:
        if not multi:
            chunks = list(st.get_iter("0", "ow", progress_bar=False, processor="single_thread"))
            got = ctxrun.concat(chunks)
            m = ctxrun.tiling_violation(chunks)
            if m:
                res.violation("ow:not-contiguous", m, case)
            if not ctxrun.rows_equal(got, exp):
                res.violation("ow:rows-differ" + (":group" if group else ":row"), f"got {got.tolist()} expected {exp.tolist()}"[:500], case)
        else:
            ca = list(st.get_iter("0", "owa", progress_bar=False, processor="single_thread"))
            cb = list(st.get_iter("0", "owb", progress_bar=False, processor="single_thread"))
            exp2 = out_rows2(whole, wl * U, wr * U, False)
            for nm, cs, ex in (("owa", ca, exp), ("owb", cb, exp2)):
                m = ctxrun.tiling_violation(cs)
                if m:
                    res.violation(f"owm:not-contiguous:{nm}", m, case)
                if not ctxrun.rows_equal(ctxrun.concat(cs), ex):
                    res.violation(f"owm:rows-differ:{nm}", f"{nm}: got {ctxrun.concat(cs).tolist()} expected {ex.tolist()}"[:500], case)
            # mutual alignment: a strict consumer of both outputs must get time-consistent inputs,
            # every row once
            CUR["both"] = []
            list(st.get_iter("0", "both", progress_bar=False, processor="single_thread"))
            ra = [r for c in CUR["both"] for r in c[2]]
            rb = [r for c in CUR["both"] for r in c[3]]
            if ra != list(exp["rid"]) or rb != list(exp2["rid"]):
                res.violation("owm:consumer-rows", f"consumer of both outputs saw {ra} / {rb}", case)
            if any(CUR["both"][i][1] != CUR["both"][i + 1][0] for i in range(len(CUR["both"]) - 1)):
                res.violation("owm:consumer-not-adjacent", "calls not adjacent", case)
    except Exception as e:
        # class of the input: is some row longer than the look-back window?  (a row can only straddle the previously
        # valid region while its left neighbours have already left the input cache if it is longer than wl)
        longrow = any(b - a > win[0] for a, b in iv)
        cls = (":group" if group else ":row") + f":wl{'0' if win[0] == 0 else '+'}" + (":row>wl" if longrow else ":rows<=wl")
        res.violation(ctxrun.exc_fp(e, 3) + cls, f"{type(e).__name__}: {e}"[:300], case)


def plan(tier, seed):
    NS = 16 if tier == "quick" else 64
    return [(sh, NS, tier, seed) for sh in range(NS)]


def worker_init():
    g.quiet()


def run_job(job):
    sh, ns, tier, seed = job
    res = Result()
    maxn, G = (3, 5) if tier == "quick" else (4, 6)
    wins = [(l, r) for l in range(4) for r in range(4)]
    i = -1
    with warnings.catch_warnings():
        warnings.simplefilter("ignore")
        for iv in ss.interval_sets_upto(maxn, 0, G, min_len=1, disjoint=True):
            for bounds in ss.chunkings(iv, 0, G + 1, zero_dur=len(iv) <= 2):
                i += 1
                if i % ns != sh:
                    continue
                for wi, win in enumerate(wins):
                    for group in (False, True):
                        res.evals += 1
                        if len(iv) >= 2 and len(bounds) > 2 and max(win) > 0:
                            res.nt(iv, bounds, win, group)
                        check(res, iv, bounds, win, group, False, False)
                    # scalar window form and multi-output: rotate over inputs (quick) / all (thorough)
                    if tier == "thorough" or (i + wi + seed) % 8 == 0:
                        if win[0] == win[1]:
                            res.evals += 1
                            check(res, iv, bounds, win, False, True, False)
                            res.count("scalar_window_cases")
                        res.evals += 1
                        check(res, iv, bounds, win, (i + wi) % 2 == 0, False, True)
                        res.count("multi_output_cases")
                if i % 499 == 0:
                    res.sample(dict(iv=iv, bounds=bounds, windows="all (l,r) in {0..3}^2", unit_ns=U), cap=2)
    return res


def replay(case):
    g.quiet()
    res = Result()
    tup = lambda x: tuple(tup(y) for y in x) if isinstance(x, list) else x
    check(res, tup(case["iv"]), tup(case["bounds"]), tuple(case["win"]), case["group"], case["scalar"], case["multi"])
    return res.violations


def sanity(total, tier):
    if total.counters.get("multi_output_cases", 0) < 100:
        return "too few multi-output cases"
