"""C15 - loading many runs in parallel equals loading them one by one.
Preemption-bounded exploration of the multi-run worker threads with LINE-LEVEL scheduling points on
every source line of strax/context.py that touches the shared plugin registry / caches."""
import re, sys, warnings
import numpy as np
import strax
from vlib.runner import Result
from vlib import graphs as g, ctxrun, vsched, explore

ID = "C15"
LEVEL = "model_checking"
RULE = (
    "get_array / make for 2-3 runs with 2 worker threads (strax.utils.ThreadPoolExecutor and wait replaced by scheduler-controlled "
    "equivalents) x target {single, two same-kind types (temporary merge plugin registered and removed per call)} x plugin cache "
    "{cold, warm} x storage {none, DataDirectory} x {no failure, one failing run with ignore_errors on/off}; plus 3-5 runs with "
    "1-2 workers, i.e. more runs than the in-flight window of 2 x max_workers, x every proper subset of failing runs (the refill "
    "bookkeeping of multi_run); one plugin has no class-level dtype (only infer_dtype), so a plugin instance published before "
    "fix_dtype() is unusable; scheduling points: "
    "pool operations plus a `line` trace event on every line of strax/context.py that mentions _plugin_class_registry, "
    "_fixed_plugin_cache, _fixed_level_cache or _run_defaults_cache (selected statically), or - mode 'funcs' - on every line of "
    "every function containing such a line; every schedule with <=B preemptions is "
    "executed; oracle: result == concatenation of sequential single-run results in run-id order with the run id attached, a "
    "failing run raises (or is omitted when errors are ignored), no other exception, no deadlock."
)
ASSUMPTIONS = [
    "mode 'lines': code between two selected lines runs atomically; mode 'funcs' drops that assumption inside every function that touches shared state (a change that re-orders a cache update and its neighbour statement is visible there); everything else the workers touch is thread-local or read-only (confirmed once per thorough run by exploring with ALL context.py lines as scheduling points at bound 1)",
    "per-run processing uses the single-thread processor inside each worker (the mailbox threads are covered by C05/C06)",
    "bytecode-level races inside one source line are not modelled",
]
BOUNDS = {"quick": "2 runs (3 for one cell), 2 workers, preemption bound 1 for 4 cells (multi-target cold cache, failing run, ignored failure with warm cache, make), bound 0 for the rest; window cells (3-5 runs, 1-2 workers, failing subsets) at bound 0; function-level points at bound 1 for the two cold-cache cells", "thorough": "2-3 runs, preemption bound 2 for 2 runs; all window cells; function-level points at bound 1 for 7 cells; all-lines confirmation at bound 1"}

SHARED = re.compile(r"_plugin_class_registry|_fixed_plugin_cache|_fixed_level_cache|_run_defaults_cache|cached_plugins")
WRITE = re.compile(r"(\]|cache|registry)\s*=[^=]|\bdel |\.pop\(|\.update\(|\.setdefault\(|\.clear\(")
# plugin INSTANCES sit in the shared cache too: functions that assign attributes of a plugin instance (config, run_id, deps, ...)
PLUGIN_WRITE = re.compile(r"\b(p|plugin|target_plugin|requested_p)\.\w+(\[[^\]]*\])?\s*=[^=]")
_LINES = {}


def shared_lines(mode=False):
    """mode False / "lines": the lines that mention the shared registry / caches; "funcs": every line of every function of
    context.py that WRITES one of them, publishes plugin instances via _plugins_to_cache, or assigns attributes of a plugin instance (so that a preemption can also fall between a cache update and the statement that
    used to precede it); True / "all": every line of context.py"""
    key = {False: "lines", True: "all"}.get(mode, mode)
    if key not in _LINES:
        fn = strax.context.__file__
        src = open(fn).read()
        lines = src.splitlines()
        sel = set()
        if key == "funcs":
            import ast

            for node in ast.walk(ast.parse(src)):
                if not isinstance(node, ast.FunctionDef) or node.name == "__init__":
                    continue
                body = lines[node.lineno - 1 : node.end_lineno]
                if any(SHARED.search(l) and WRITE.search(l) for l in body) or any("_plugins_to_cache(" in l for l in body[1:]) or any(PLUGIN_WRITE.search(l) for l in body):
                    sel.update(range(node.lineno, node.end_lineno + 1))
        else:
            for i, l in enumerate(lines, 1):
                if key == "all" or SHARED.search(l):
                    sel.add(i)
        _LINES[key] = (fn, sel)
    return _LINES[key]


def make_tracer(all_lines=False):
    fn, sel = shared_lines(all_lines)

    def local(frame, event, arg):
        if event == "line" and frame.f_lineno in sel:
            s = vsched.SCHED
            if s is not None and not s.aborting and s.cur is not None and s.cur.name != "main":
                s.point(waiting_on=("line", frame.f_lineno))
        return local

    def tracer(frame, event, arg):
        if event == "call" and frame.f_code.co_filename == fn:
            return local
        return None

    return tracer


CUR = {"fail": None}


def fails(f):
    """the failing runs of a cell: None, one run id, or a tuple of run ids"""
    return () if f is None else ((f,) if isinstance(f, str) else tuple(f))


def unpack(cfg):
    cfg = tuple(cfg)
    return cfg if len(cfg) == 8 else cfg + (2,)


class Src(strax.Plugin):
    provides = "src"
    depends_on = ()
    dtype = g.dt_for("src")
    data_kind = "kk"
    rechunk_on_save = False
    __version__ = "0"

    def source_finished(self):
        return True

    def is_ready(self, chunk_i):
        return chunk_i < 2

    def compute(self, chunk_i):
        rid = int(self.run_id)
        if self.run_id in fails(CUR["fail"]) and chunk_i == 1:
            raise ValueError(f"injected failure in run {self.run_id}")
        r = np.zeros(1, self.dtype)
        t = rid * 10000 + chunk_i * 1000
        r[0] = (t, t + 500, rid * 10 + chunk_i, rid + chunk_i)
        return self.chunk(start=t, end=t + 1000, data=r)


@strax.takes_config(strax.Option("n_extra", default=0, type=int, help="read by infer_dtype: a half-configured instance fails"))
class Mp(strax.Plugin):
    provides = "mp"
    depends_on = ("src",)
    data_kind = "kk"
    rechunk_on_save = False
    __version__ = "0"

    def infer_dtype(self):  # no class-level dtype: the instance is only usable after fix_dtype(), and only when configured
        assert self.config["n_extra"] == 0
        return g.dt_for("mp")

    def compute(self, kk):
        return g.f_map("mp", "src", kk)


def expected(runs, targets, fail, ignore):
    out = []
    for r in sorted(runs):
        if r in fails(fail):
            continue
        rid = int(r)
        s = np.zeros(2, g.dt_for("src"))
        for c in (0, 1):
            t = rid * 10000 + c * 1000
            s[c] = (t, t + 500, rid * 10 + c, rid + c)
        m = g.f_map("mp", "src", s)
        if targets == "mp":
            x = m
        else:
            x = strax.merge_arrs([s, m], dtype=strax.merged_dtype([a.dtype for a in (m, s)]))
        ids = np.array([r] * len(x), dtype=[("run_id", np.array(sorted(runs)).dtype)])
        out.append(strax.merge_arrs([ids, x]))
    return np.concatenate(out) if out else None


class H(explore.Harness):
    def __init__(self, cfg, all_lines=False):
        self.cfg = cfg
        self.tracer = make_tracer(all_lines)
        self.obs = {}

    def main(self):
        runs, targets, warm, storage, fail, ignore, call, workers = unpack(self.cfg)
        CUR["fail"] = fail
        d = ctxrun.fresh_dir("c15") if storage else None
        st = strax.Context(storage=[strax.DataDirectory(d)] if d else [], register=[Src, Mp], **g.CTX_DEFAULTS)
        if warm:
            st.key_for(runs[0], "mp")
            st.get_components(runs[0], "mp")
        tg = targets if targets == "mp" else ("src", "mp")
        try:
            with warnings.catch_warnings():
                warnings.simplefilter("ignore")
                if call == "make":
                    st.make(list(runs), tg if targets == "mp" else "mp", max_workers=workers, processor="single_thread", progress_bar=False, multi_run_progress_bar=False, ignore_errors=ignore)
                    self.obs["res"] = None
                    self.obs["stored"] = {r: st.is_stored(r, "mp") for r in runs}
                else:
                    self.obs["res"] = st.get_array(list(runs), tg, max_workers=workers, processor="single_thread", progress_bar=False, multi_run_progress_bar=False, ignore_errors=ignore)
        except vsched.Abort:
            raise
        except BaseException as e:  # noqa
            self.obs["exc"] = e
        self.obs["registry"] = sorted(st._plugin_class_registry)

    def final(self, s):
        runs, targets, warm, storage, fail, ignore, call, workers = unpack(self.cfg)
        exc = self.obs.get("exc")
        key = (type(exc).__name__ if exc is not None else "ok",)
        if s.deadlock:
            return key, None
        if fail is not None and not ignore:
            if exc is None:
                return key, f"run {fail} fails but the call returned normally"
            if not (isinstance(exc, ValueError) and "injected failure" in str(exc)):
                return key, crash_msg(exc)
            return key, None
        if exc is not None:
            return key, crash_msg(exc)
        if call == "make":
            bad = [r for r, v in self.obs["stored"].items() if (r not in fails(fail)) != bool(v) and storage]
            if bad:
                return key, f"after make, is_stored is wrong for runs {bad}"
            return key, None
        exp = expected(runs, targets, fail, ignore)
        got = self.obs["res"]
        if exp is None or got is None or not ctxrun.rows_equal(got, exp):
            return key, f"parallel result differs from the sequential per-run results (got {None if got is None else got['run_id'].tolist()} / rids {None if got is None else got['rid'].tolist()})"
        if any(k.startswith("_temp") for k in self.obs["registry"]):
            return key, f"temporary merge plugin left in the registry: {self.obs['registry']}"
        return key, None


def crash_msg(exc):
    tb = exc.__traceback__
    site = None
    while tb:
        f = tb.tb_frame
        if f.f_code.co_filename.endswith("strax/context.py"):
            import linecache

            site = (f.f_code.co_name, re.sub(r"\s+", " ", linecache.getline(f.f_code.co_filename, tb.tb_lineno).strip())[:80])
        tb = tb.tb_next
    return f"CRASH {type(exc).__name__} @ {site}: {str(exc)[:120]}"


def cells(tier):
    C = []
    for targets in ("mp", "multi"):
        for warm in (False, True):
            for storage in (False, True):
                C.append((("1", "2"), targets, warm, storage, None, False, "get"))
    C.append((("1", "2"), "mp", False, True, "2", False, "get"))
    C.append((("1", "2"), "mp", False, True, "2", True, "get"))
    C.append((("1", "2"), "multi", True, False, "1", True, "get"))
    C.append((("1", "2"), "mp", False, True, None, False, "make"))
    C.append((("1", "2", "3"), "multi", False, False, None, False, "get"))
    if tier == "thorough":
        C.append((("1", "2", "3"), "mp", True, True, "2", True, "get"))
        C.append((("1", "2", "3"), "mp", False, True, None, False, "make"))
    return C + window_cells(tier)


def window_cells(tier):
    """more runs than the in-flight window (2 x max_workers): the refill bookkeeping of multi_run, with every set of failing
    runs (not all of them) ignored, and one not ignored; 1 worker x 3-4 runs, 2 workers x 5 runs"""
    W = []
    for runs, workers in ((("1", "2", "3"), 1), (("1", "2", "3", "4"), 1), (("1", "2", "3", "4", "5"), 2)):
        n = len(runs)
        for mask in range(2**n - 1):
            fail = tuple(r for k, r in enumerate(runs) if mask >> k & 1)
            if workers == 2 and tier == "quick" and len(fail) not in (0, 1, 4):
                continue
            W.append((runs, "mp", False, False, fail or None, True, "get", workers))
        W.append((runs, "mp", False, True, (runs[1],), False, "get", workers))
        W.append((runs, "mp", False, True, (runs[0], runs[2]), True, "make", workers))
    return W


N_BASE = {"quick": 14, "thorough": 16}


def plan(tier, seed):
    C = cells(tier)
    jobs = []
    for i, c in enumerate(C):
        if i >= N_BASE[tier]:
            jobs.append((i, 0, "lines", tier))  # window cells: every order of completions, no preemption
        elif tier == "thorough":
            jobs.append((i, 2 if len(c[0]) == 2 else 1, "lines", tier))
        else:
            # quick: preemption bound 1 for the cells with the temporary merge plugin, a failing run and make;
            # bound 0 (every choice at blocking points, no preemption) for the others
            jobs.append((i, 1 if i in (4, 8, 10, 11) else 0, "lines", tier))
    # every line of every function that touches the shared registry / caches as a scheduling point, bound 1
    jobs += [(i, 1, "funcs", tier) for i in ((0, 4) if tier == "quick" else (0, 1, 4, 5, 8, 9, 11))]
    if tier == "thorough":
        jobs += [(i, 1, "all", tier) for i in (0, 4, 8)]
    return jobs


def worker_init():
    vsched.install()
    g.quiet()
    import strax.storage.files as F

    F.print = lambda *a, **k: None


def run_job(job):
    i, bound, all_lines, tier = job
    res = Result()
    cfg = cells(tier)[i]
    r = explore.explore(lambda: H(cfg, all_lines), regime="preempt", bound=bound, hashing=False, max_execs=60000)
    res.evals += 1
    res.count("cells")
    res.count("executions", r.executions)
    res.count("transitions", r.transitions)
    res.count("states", r.transitions + 1)
    res.mx("max_scheduling_points", r.maxdepth)
    res.nt(cfg, bound, all_lines)
    res.add_set("outcomes", (i, tuple(sorted(map(repr, r.outcomes)))))
    if r.cap_hit:
        res.caps_hit.append(f"cell {i}: {r.cap_hit}")
    res.sample(dict(cell=cfg, regime="preemption-bounded", bound=bound, points_mode=all_lines or 'lines', executions=r.executions, scheduling_points_max=r.maxdepth, shared_lines=len(shared_lines(all_lines)[1])), cap=1)
    seen = set()
    for kind, msg, choices in r.violations:
        if msg.startswith("CRASH"):
            m = re.match(r"CRASH (\w+) @ \('(\w+)', '(.*?)'\)", msg)
            fp = f"crash:{m.group(1)}:{m.group(2)}:{m.group(3)}" if m else "crash:" + msg[:80]
        else:
            fp = f"{kind}:" + re.sub(r"[^A-Za-z ]+", "#", msg)[:60]
        if fp in seen:
            continue
        seen.add(fp)
        res.violation(fp, f"{cfg} bound {bound}: {msg}"[:400], dict(cell=i, tier=tier, all_lines=all_lines, choices=choices))
    return res


def replay(case):
    worker_init()
    cfg = cells(case.get("tier", "thorough"))[case["cell"]]
    out = []
    for _ in range(2):
        h, s, info = explore.replay(lambda: H(cfg, case.get("all_lines", False)), case["choices"])
        k, v = h.final(s)
        if s.deadlock and not v:
            v = "deadlock"
        out.append(v)
    if out[0] != out[1]:
        raise vsched.HarnessError(f"replay not deterministic: {out}")
    return [dict(fingerprint="replay", what=out[0])] if out[0] else []


def sanity(total, tier):
    if total.counters.get("executions", 0) < 300:
        return "fewer than 300 executions"
    if total.maxes.get("max_scheduling_points", 0) < 50:
        return "fewer than 50 scheduling points per execution: line-level points not active?"
