"""C19 - peak clustering, summing, merging and splitting conserve hits, area and time."""
import itertools, warnings
import numpy as np
import strax
from vlib.runner import Result
from vlib import smallscope as ss

ID = "C19"
LEVEL = "exploration"
RULE = (
    "find_peaks: every time-sorted hit set of <=N hits (start 0..G, length 1..3, overlaps allowed, every channel assignment over 2 "
    "channels) x gap thresholds x (left,right) extensions x max_duration x min_area/min_channels, against the gap-clustering "
    "definition (a split between consecutive hits is REQUIRED when the gap to the running maximum end >= threshold or the merged "
    "peak would exceed max_duration, FORBIDDEN when the gap is smaller and the merged peak fits even the implementation's "
    "conservative duration test, otherwise free); peaks disjoint, ordered, spanning hits +- extensions, area / per-channel area / "
    "n_hits / max_gap as defined; cuts == filter of the uncut result. sum_waveform: every pair of binary waveforms (2 channels x 6 "
    "samples, 3 relative offsets, baseline fraction) -> find_hits -> find_peaks -> sum_waveform with a small waveform buffer "
    "(forcing down-sampling): peak area == sum of its hits' contributions per channel, waveform integral == area whenever no "
    "sample is truncated. merge_peaks over every consecutive index range, replace_merged, split_peaks (local minimum) tiling; "
    "merge_peaks on synthetic peak rows (4-5 peaks, lengths {1,3}, gaps {0,1,4,7}, thorough also mixed dt) for every selection of "
    "one or two disjoint index ranges in ONE call (the scratch buffers are shared between the merges of a call): merged time / "
    "length / dt / data / data_top against the defining lay-out-and-down-sample reference, area / n_hits sums; "
    "symmetric_moving_average / index_of_fraction / compute_center_time / compute_widths vs defining formulas on every waveform "
    "of <=7 samples over {0,1,2,3}. non-trivial: >=2 hits resp. a waveform with >=2 distinct values; distinct by input."
)
ASSUMPTIONS = [
    "<=4 hits (thorough 5) on a small grid; the quantifier's 12 hits / 4 channels are beyond exhaustive reach",
    "float comparisons with relative tolerance 1e-5 (areas are float32 sums)",
    "highest_density_region and natural-breaks splitting are not covered by a reference in this version",
]
BOUNDS = {"quick": "hits<=4 on 0..6; waveform pairs 2^6 x 2^6 (rotating offsets); helpers: waveforms<=6", "thorough": "hits<=5 on 0..7; all offsets; helpers: waveforms<=7"}
TOL = 1e-5
PDT = np.dtype(strax.peak_dtype(n_channels=2, n_sum_wv_samples=8))
PDT5 = np.dtype(strax.peak_dtype(n_channels=2, n_sum_wv_samples=8, n_widths=5))


def close(a, b):
    return np.allclose(a, b, rtol=TOL, atol=1e-6)


# ------------------------------------------------------------------ find_peaks
def mk_hits(iv, chans, dt=1):
    h = np.zeros(len(iv), strax.hit_dtype)
    for i, (a, b) in enumerate(iv):
        h[i]["time"], h[i]["length"], h[i]["dt"], h[i]["channel"], h[i]["area"] = a * dt, b - a, dt, chans[i], 1 + i
    return h


STRIDE = 1000


def find_peaks_batch(cases, gap, le, re, maxdur, min_area=0, min_ch=1):
    """all hit sets in one call, case c shifted by c*STRIDE ns (far beyond any gap threshold)"""
    n = sum(len(iv) for iv, ch in cases)
    h = np.zeros(n, strax.hit_dtype)
    k = 0
    for c, (iv, chans) in enumerate(cases):
        for i, (a, b) in enumerate(iv):
            h[k]["time"], h[k]["length"], h[k]["dt"], h[k]["channel"], h[k]["area"] = c * STRIDE + a, b - a, 1, chans[i], 1 + i
            k += 1
    to_pe = np.array([1.0, 2.0])
    peaks = strax.find_peaks(h, to_pe, gap_threshold=gap, left_extension=le, right_extension=re, min_area=min_area, min_channels=min_ch, max_duration=maxdur, result_dtype=PDT)
    owner = (peaks["time"] + le) // STRIDE
    return h, to_pe, peaks, owner


def check_find_peaks_batch(res, cases, gap, le, re, maxdur):
    try:
        h, to_pe, allpeaks, owner = find_peaks_batch(cases, gap, le, re, maxdur)
        cuts = {}
        for min_area, min_ch in ((3, 1), (0, 2), (4, 2)):
            _, _, cp, co = find_peaks_batch(cases, gap, le, re, maxdur, min_area, min_ch)
            cuts[(min_area, min_ch)] = (cp, co)
    except Exception as e:
        res.violation(f"find_peaks:raised:{type(e).__name__}", str(e)[:200], dict(sub="find_peaks_batch", n=len(cases), gap=gap, le=le, re=re, max_duration=maxdur))
        return
    for c, (iv, chans) in enumerate(cases):
        peaks = allpeaks[owner == c].copy()
        peaks["time"] -= c * STRIDE
        cc = {k: v[0][v[1] == c] for k, v in cuts.items()}
        for v in cc.values():
            v["time"] -= c * STRIDE
        check_find_peaks(res, iv, chans, gap, le, re, maxdur, peaks, cc)


def check_find_peaks(res, iv, chans, gap, le, re, maxdur, peaks=None, cuts=None):
    case = dict(sub="find_peaks", iv=iv, chans=chans, gap=gap, le=le, re=re, max_duration=maxdur)
    hits = mk_hits(iv, chans)
    to_pe = np.array([1.0, 2.0])
    if peaks is None:
        try:
            peaks = strax.find_peaks(hits, to_pe, gap_threshold=gap, left_extension=le, right_extension=re, min_area=0, min_channels=1, max_duration=maxdur, result_dtype=PDT)
        except Exception as e:
            res.violation(f"find_peaks:raised:{type(e).__name__}", str(e)[:200], case)
            return
    n = len(iv)
    if int(peaks["n_hits"].sum()) != n:
        res.violation("find_peaks:hits-lost", f"peaks account for {int(peaks['n_hits'].sum())} of {n} hits", case)
        return
    k = 0
    prev_end = None
    for p in peaks:
        m = int(p["n_hits"])
        grp = list(range(k, k + m))
        first = iv[k][0]
        mx = max(iv[j][1] for j in grp)
        exp_t, exp_e = first - le, mx + re
        if int(p["time"]) != exp_t or int(strax.endtime(p)) != exp_e:
            res.violation("find_peaks:span", f"peak of hits {grp} spans [{p['time']},{strax.endtime(p)}) expected [{exp_t},{exp_e})", case)
            return
        if prev_end is not None and int(p["time"]) < prev_end:
            # classify: was the split before this peak forced by max_duration between hits closer than le+re?
            g_ = iv[k][0] - max(iv[j][1] for j in range(k))
            forced = g_ < gap
            tag = "find_peaks:overlap:split-forced-by-max_duration" if forced and g_ < le + re else "find_peaks:overlap"
            res.violation(tag, f"peak starting at {p['time']} overlaps the previous one ending at {prev_end} (gap between the hits {g_}, extensions {le}+{re}, max_duration {maxdur})", case)
            return
        prev_end = int(strax.endtime(p))
        area = sum(hits[j]["area"] * to_pe[chans[j]] for j in grp)
        apc = [sum(hits[j]["area"] * to_pe[chans[j]] for j in grp if chans[j] == c) for c in (0, 1)]
        if not close(p["area"], area) or not close(p["area_per_channel"], apc):
            res.violation("find_peaks:area", f"peak of hits {grp}: area {p['area']} per channel {p['area_per_channel'].tolist()} expected {area} {apc}", case)
            return
        # split decisions inside the group (no split) and after it (split)
        run_end = iv[k][1]
        mg = 0
        for j in grp[1:]:
            g = iv[j][0] - run_end
            mg = max(mg, g)
            exact = max(run_end, iv[j][1]) - first + le + re
            if g >= gap or exact > maxdur:
                res.violation("find_peaks:missing-split", f"hits {j-1},{j} are in one peak although gap {g} >= {gap} or duration {exact} > {maxdur}", case)
                return
            run_end = max(run_end, iv[j][1])
        if int(p["max_gap"]) != mg:
            res.violation("find_peaks:max_gap", f"max_gap {p['max_gap']} expected {mg}", case)
            return
        if k + m < n:
            j = k + m
            g = iv[j][0] - run_end
            conservative = iv[j][1] - first + 2 * le + re
            if g < gap and conservative <= maxdur:
                res.violation("find_peaks:spurious-split", f"split between hits {j-1},{j} although gap {g} < {gap} and the merged peak fits max_duration {maxdur}", case)
                return
        k += m
    res.add_set("n_peaks", len(peaks))
    # cuts = filter of the uncut result
    for min_area, min_ch in ((3, 1), (0, 2), (4, 2)):
        if cuts is not None:
            cut = cuts[(min_area, min_ch)]
        else:
            cut = strax.find_peaks(hits, to_pe, gap_threshold=gap, left_extension=le, right_extension=re, min_area=min_area, min_channels=min_ch, max_duration=maxdur, result_dtype=PDT)
        keep = [(p["area"] >= min_area) and ((p["area_per_channel"] != 0).sum() >= min_ch) for p in peaks]
        exp = peaks[np.array(keep, dtype=bool)] if len(peaks) else peaks
        if len(cut) != len(exp) or not all(np.array_equal(cut[f], exp[f]) for f in ("time", "length", "n_hits", "area")):
            res.violation("find_peaks:cuts", f"min_area {min_area} min_channels {min_ch}: got peaks at {cut['time'].tolist()} expected {exp['time'].tolist()}", case)
            return


def job_find_peaks(res, n, G, shard, nshards):
    k = -1
    params = [(3, 0, 0), (3, 1, 1), (4, 2, 1), (5, 0, 3), (2, 0, 1)]
    cases = []
    for iv in ss.interval_sets(n, 0, G, min_len=1, max_len=3):
        k += 1
        if k % nshards != shard:
            continue
        for chans in itertools.product((0, 1), repeat=n):
            if n >= 4 and chans[0] == 1:
                continue  # channel symmetry
            cases.append((iv, chans))
    for gap, le, re in params:
        for maxdur in (10**6, 6, 9):
            res.evals += len(cases)
            if n >= 2:
                for iv, chans in cases[:: max(1, len(cases) // 200)]:
                    res.nt("fp", iv, chans, gap, le, re, maxdur)
            for i in range(0, len(cases), 2000):
                check_find_peaks_batch(res, cases[i : i + 2000], gap, le, re, maxdur)
    res.sample(dict(sub="find_peaks", hits=[(0, 1), (1, 3), (6, 7)], channels=(0, 1, 0), gap_threshold=3, extensions=(1, 1)), cap=1)


# ------------------------------------------------------------------ sum_waveform / merge / split
SPR = 6


def pipeline(wa, wb, off, blf):
    """two channels, one record each (channel 1 shifted by `off` samples); dt=1"""
    r = np.zeros(2, strax.record_dtype(SPR))
    for c, (w, t) in enumerate(((wa, 10), (wb, 10 + off))):
        r[c]["time"], r[c]["dt"], r[c]["length"], r[c]["channel"], r[c]["record_i"], r[c]["pulse_length"] = t, 1, SPR, c, 0, SPR
        r[c]["baseline"] = 100 + blf
        r[c]["data"][:SPR] = w
    r = strax.sort_by_time(r)
    hits = strax.find_hits(r, min_amplitude=1)
    hits = strax.sort_by_time(hits)
    return r, hits


def check_sum(res, wa, wb, off, blf, gap, le, re):
    case = dict(sub="sum_waveform", wa=wa, wb=wb, off=off, blf=blf, gap=gap, le=le, re=re)
    r, hits = pipeline(wa, wb, off, blf)
    if not len(hits):
        return None
    to_pe = np.array([1.0, 0.5])
    try:
        peaks = strax.find_peaks(hits, to_pe, gap_threshold=gap, left_extension=le, right_extension=re, min_area=0, min_channels=1, result_dtype=PDT)
        p0 = peaks.copy()
        strax.sum_waveform(peaks, hits, r, strax.record_links(r), to_pe)
    except Exception as e:
        res.violation(f"sum_waveform:raised:{type(e).__name__}", str(e)[:200], case)
        return None
    for i, p in enumerate(peaks):
        t0, t1 = int(p0[i]["time"]), int(strax.endtime(p0[i]))
        inside = [h for h in hits if h["time"] >= t0 and strax.endtime(h) <= t1]
        apc = [sum(float(h["area"]) * to_pe[h["channel"]] for h in inside if h["channel"] == c) for c in (0, 1)]
        if not close(p["area"], sum(apc)) or not close(p["area_per_channel"], apc):
            res.violation("sum_waveform:area", f"peak {i} [{t0},{t1}): area {p['area']} per channel {p['area_per_channel'].tolist()} but its hits contribute {sum(apc)} {apc}", case)
            return None
        factor = int(p["dt"]) // int(p0[i]["dt"])
        nfull = int(p0[i]["length"])
        integral = float(p["data"][: p["length"]].sum())
        if nfull % factor == 0 or factor == 1:
            if not close(integral, p["area"]):
                res.violation("sum_waveform:integral", f"peak {i}: waveform integrates to {integral}, area {p['area']} (downsample factor {factor})", case)
                return None
        else:
            if integral > float(p["area"]) * (1 + TOL) + 1e-6:
                res.violation("sum_waveform:integral-exceeds", f"peak {i}: waveform integral {integral} > area {p['area']}", case)
                return None
        if factor > 1:
            res.count("downsampled_peaks")
        if int(p["time"]) != t0 or int(strax.endtime(p)) > t1:
            res.violation("sum_waveform:span", f"peak {i} span changed to [{p['time']},{strax.endtime(p)}) from [{t0},{t1})", case)
            return None
    return r, hits, peaks, to_pe


def check_merge(res, peaks, case):
    n = len(peaks)
    if n < 2:
        return
    for i in range(n):
        for j in range(i + 2, n + 1):
            res.evals += 1
            try:
                m = strax.merge_peaks(peaks, np.array([i]), np.array([j]), max_buffer=200)
            except Exception as e:
                res.violation(f"merge_peaks:raised:{type(e).__name__}", str(e)[:200], case)
                return
            sl = peaks[i:j]
            if not close(m[0]["area"], sl["area"].sum()) or not close(m[0]["area_per_channel"], sl["area_per_channel"].sum(axis=0)) or int(m[0]["n_hits"]) != int(sl["n_hits"].sum()):
                res.violation("merge_peaks:area", f"merge [{i},{j}): area {m[0]['area']} n_hits {m[0]['n_hits']} expected {sl['area'].sum()} {sl['n_hits'].sum()}", case)
                return
            if int(m[0]["time"]) != int(sl[0]["time"]) or int(strax.endtime(m[0])) > int(strax.endtime(sl[-1])) or int(strax.endtime(sl[-1])) - int(strax.endtime(m[0])) >= int(m[0]["dt"]):
                res.violation("merge_peaks:span", f"merge [{i},{j}) spans [{m[0]['time']},{strax.endtime(m[0])}) expected [{sl[0]['time']},{strax.endtime(sl[-1])})", case)
                return
            rep = strax.replace_merged(peaks, m)
            exp_idx = list(range(0, i)) + [-1] + list(range(j, n))
            if len(rep) != len(exp_idx):
                res.violation("replace_merged:count", f"{len(rep)} peaks after replacing [{i},{j}) of {n}", case)
                return
            for q, ix in zip(rep, exp_idx):
                ref = m[0] if ix == -1 else peaks[ix]
                if q.tobytes() != ref.tobytes():
                    res.violation("replace_merged:changed", f"peak {ix} altered or misplaced after replacing [{i},{j})", case)
                    return
            if np.any(np.diff(rep["time"]) < 0):
                res.violation("replace_merged:unsorted", "result not time ordered", case)
                return


def check_split(res, r, hits, peaks, to_pe, case):
    for mh, mr in ((0, 0), (0.5, 0), (0, 1.5)):
        res.evals += 1
        try:
            sp = strax.split_peaks(peaks.copy(), hits, r, strax.record_links(r), to_pe, algorithm="local_minimum", min_height=mh, min_ratio=mr)
        except Exception as e:
            res.violation(f"split_peaks:raised:{type(e).__name__}", str(e)[:200], case)
            return
        # children tile their parent: group children by containing parent
        if not close(sp["area"].sum(), peaks["area"].sum()):
            res.violation("split_peaks:area", f"areas {sp['area'].tolist()} do not add up to {peaks['area'].tolist()}", case)
            return
        for p in peaks:
            t0, t1 = int(p["time"]), int(strax.endtime(p))
            ch = sp[(sp["time"] >= t0) & (strax.endtime(sp) <= t1)]
            if not len(ch):
                res.violation("split_peaks:lost", f"no child inside parent [{t0},{t1})", case)
                return
            if int(ch[0]["time"]) != t0 or any(int(strax.endtime(ch[k])) != int(ch[k + 1]["time"]) for k in range(len(ch) - 1)) or int(strax.endtime(ch[-1])) != t1:
                if int(p["dt"]) == 1:  # exact tiling is only defined without down-sampling loss
                    res.violation("split_peaks:tiling", f"children {[(int(c['time']), int(strax.endtime(c))) for c in ch]} do not tile parent [{t0},{t1})", case)
                    return
            if len(ch) > 1:
                res.count("splits")


def job_sum(res, shard, nshards, tier, seed):
    wfs = list(itertools.product((0, 3), repeat=SPR))
    k = -1
    for wa in wfs:
        for wb in wfs:
            k += 1
            if k % nshards != shard:
                continue
            offs = (0, 2, 5) if tier == "thorough" else ((0, 2, 5)[(k // nshards + seed) % 3],)
            for off in offs:
                for blf, gap, le, re in ((0.0, 3, 1, 1), (0.5, 4, 0, 2)):
                    res.evals += 1
                    if sum(wa) and sum(wb):
                        res.nt("sw", wa, wb, off, blf)
                    out = check_sum(res, wa, wb, off, blf, gap, le, re)
                    if out is None:
                        continue
                    r, hits, peaks, to_pe = out
                    case = dict(sub="merge_split", wa=wa, wb=wb, off=off, blf=blf, gap=gap, le=le, re=re)
                    if (k // nshards) % 4 == 0 or tier == "thorough":
                        check_merge(res, peaks, case)
                        check_split(res, r, hits, peaks, to_pe, case)
    res.sample(dict(sub="sum_waveform", wa=(3, 3, 0, 0, 3, 0), wb=(0, 3, 0, 3, 3, 3), offset=2), cap=1)


# ------------------------------------------------------------------ merge_peaks on synthetic peak rows (several merges per call)
MM_GAPS = (0, 1, 4, 7)
MM_LENS = (1, 3)


def mm_peaks(lens, gaps, dts):
    n = len(lens)
    p = np.zeros(n, PDT)
    t = 100
    for i in range(n):
        p[i]["time"], p[i]["dt"], p[i]["length"] = t, dts[i], lens[i]
        p[i]["data"][: lens[i]] = [(i + 1) * 10 + k + 1 for k in range(lens[i])]
        p[i]["data_top"][: lens[i]] = p[i]["data"][: lens[i]] * 0.25
        p[i]["area"] = p[i]["data"][: lens[i]].sum()
        p[i]["area_per_channel"] = [p[i]["area"] * 0.75, p[i]["area"] * 0.25]
        p[i]["n_hits"] = i + 1
        p[i]["max_diff"], p[i]["min_diff"] = 5 + i, 3 + i
        t += lens[i] * dts[i] + (gaps[i] if i < n - 1 else 0)
    return p


def mm_reference(sl):
    """merged waveform by definition: constituents laid out on the common time base, then down-sampled by an integer factor to
    fit the peak's waveform buffer (truncating a fractional last sample)"""
    common = int(np.gcd.reduce(sl["dt"].astype(np.int64)))
    t0 = int(sl[0]["time"])
    L = (int(strax.endtime(sl[-1])) - t0) // common
    out = {}
    for f in ("data", "data_top"):
        buf = np.zeros(L, np.float64)
        for q in sl:
            up = int(q["dt"]) // common
            i0 = (int(q["time"]) - t0) // common
            buf[i0 : i0 + int(q["length"]) * up] = np.repeat(q[f][: q["length"]].astype(np.float64), up) / up
        ns = len(sl[0]["data"])
        fac = int(np.ceil(L / ns))
        nl = L // fac if fac > 1 else L
        out[f] = buf[: nl * fac].reshape(-1, fac).sum(axis=1) if fac > 1 else buf
        out["length"], out["dt"] = nl, common * fac
    return out


def range_sets(n):
    """all selections of 1 or 2 disjoint index ranges [i,j) with >= 2 peaks each"""
    rs = [(i, j) for i in range(n) for j in range(i + 2, n + 1)]
    for r in rs:
        yield (r,)
    for a in rs:
        for b in rs:
            if a[1] <= b[0]:
                yield (a, b)


def check_merge_multi(res, lens, gaps, dts):
    case = dict(sub="merge_multi", lens=lens, gaps=gaps, dts=dts)
    peaks = mm_peaks(lens, gaps, dts)
    for rsel in range_sets(len(lens)):
        res.evals += 1
        try:
            m = strax.merge_peaks(peaks, np.array([r[0] for r in rsel]), np.array([r[1] for r in rsel]), max_buffer=64)
        except Exception as e:
            res.violation(f"merge_peaks:raised:{type(e).__name__}", str(e)[:200], dict(case, ranges=rsel))
            return
        for (i, j), mp in zip(rsel, m):
            sl = peaks[i:j]
            ref = mm_reference(sl)
            if int(mp["time"]) != int(sl[0]["time"]) or int(mp["length"]) != ref["length"] or int(mp["dt"]) != ref["dt"]:
                res.violation("merge_peaks:geometry", f"ranges {rsel}: merged [{i},{j}) has time/length/dt {mp['time']}/{mp['length']}/{mp['dt']}, expected {sl[0]['time']}/{ref['length']}/{ref['dt']}", dict(case, ranges=rsel))
                return
            for f in ("data", "data_top"):
                if not close(mp[f][: mp["length"]], ref[f]) or np.any(mp[f][mp["length"] :] != 0):
                    which = "only merge in the call" if len(rsel) == 1 else f"merge {rsel.index((i, j)) + 1} of 2 in one call"
                    res.violation(f"merge_peaks:waveform:{f}:{'single' if len(rsel) == 1 else 'multi'}", f"ranges {rsel}: {f} of merged [{i},{j}) ({which}) is {mp[f][:mp['length']].tolist()}, expected {ref[f].tolist()}", dict(case, ranges=rsel))
                    return
            if not close(mp["area"], sl["area"].sum()) or not close(mp["area_per_channel"], sl["area_per_channel"].sum(axis=0)) or int(mp["n_hits"]) != int(sl["n_hits"].sum()):
                res.violation("merge_peaks:area", f"ranges {rsel}: merged [{i},{j}) area {mp['area']}", dict(case, ranges=rsel))
                return
            if ref["length"] * ref["dt"] == int(strax.endtime(sl[-1])) - int(sl[0]["time"]) and not close(mp["data"][: mp["length"]].sum(), mp["area"]):
                res.violation("merge_peaks:integral", f"ranges {rsel}: merged [{i},{j}) integrates to {mp['data'][:mp['length']].sum()}, area {mp['area']}", dict(case, ranges=rsel))
                return
            if ref["dt"] > int(np.gcd.reduce(sl["dt"].astype(np.int64))):
                res.count("merge_downsampled")
        if len(rsel) == 2:
            res.count("merge_two_ranges")


def job_merge_multi(res, n, shard, nshards, tier):
    k = -1
    dt_menus = [(1,) * n, tuple((1, 2)[i % 2] for i in range(n))] if tier == "thorough" else [(1,) * n]
    for lens in itertools.product(MM_LENS, repeat=n):
        for gaps in itertools.product(MM_GAPS, repeat=n - 1):
            k += 1
            if k % nshards != shard:
                continue
            for dts in dt_menus:
                res.nt("mm", lens, gaps, dts)
                check_merge_multi(res, lens, gaps, dts)
    res.sample(dict(sub="merge_multi", lens=(3, 3, 3, 1), gaps=(7, 0, 7), ranges=((0, 2), (2, 4))), cap=1)




# ------------------------------------------------------------------ helpers
def job_helpers(res, L, shard, nshards):
    k = -1
    for w in itertools.product((0, 1, 2, 3), repeat=L):
        k += 1
        if k % nshards != shard:
            continue
        a = np.array(w, dtype=np.float32)
        res.evals += 1
        if len(set(w)) > 1:
            res.nt("h", w)
        case = dict(sub="helpers", w=w)
        for wing in (1, 2, 3):
            got = strax.processing.peak_splitting.symmetric_moving_average(a.copy(), wing)
            exp = np.array([a[max(0, i - wing) : i + wing + 1].mean() for i in range(L)], dtype=np.float32)
            if not close(got, exp):
                res.violation("symmetric_moving_average:wrong", f"wing {wing}: got {got.tolist()} expected {exp.tolist()}", dict(case, wing=wing))
                break
        if a.sum() > 0:
            p = np.zeros(1, PDT)
            p["dt"], p["length"], p["time"], p["area"] = 2, L, 100, a.sum()
            p["data"][0][:L] = a
            fr = np.array([0.0, 0.1, 0.25, 0.5, 0.75, 1.0])
            got = strax.index_of_fraction(p, fr)[0]
            cum = np.concatenate([[0], np.cumsum(a.astype(np.float64))])
            tot = cum[-1]
            exp = []
            for f in fr:
                if f == 1.0:
                    exp.append(float(L))
                    continue
                need = f * tot
                i = 0
                while i < L and not (cum[i + 1] >= need - 1e-9):
                    i += 1
                exp.append(i + ((need - cum[i]) / a[i] if a[i] != 0 else 0.0))
            if not np.allclose(got, exp, rtol=1e-4, atol=1e-4):
                res.violation("index_of_fraction:wrong", f"got {got.tolist()} expected {exp}", case)
            ct = strax.processing.peak_properties.compute_center_time(p)[0]
            avg = float((np.arange(L) * a).sum() / a.sum())
            expc = int(100 + np.clip(int((avg + 0.5) * 2), 0, 2 * L))
            if abs(int(ct) - expc) > 0:
                # tolerate float32 rounding exactly at an integer boundary
                if abs((avg + 0.5) * 2 - round((avg + 0.5) * 2)) > 1e-4:
                    res.violation("compute_center_time:wrong", f"got {ct} expected {expc}", case)
            # widths: monotone and consistent with index_of_fraction
            p2 = np.zeros(1, PDT5)
            for f in ("dt", "length", "time", "area"):
                p2[f] = p[f]
            p2["data"][0][:L] = a
            med, width, adm = strax.compute_widths(p2)
            fr2 = strax.index_of_fraction(p2, np.array([0.125, 0.25, 0.375, 0.5, 0.625, 0.75, 0.875]))[0] * 2
            expw = [0.0, fr2[4] - fr2[2], fr2[5] - fr2[1], fr2[6] - fr2[0]]
            if not np.allclose(width[0][:4], expw, rtol=1e-4, atol=1e-3) or not np.isclose(med[0], fr2[3], atol=1e-3) or np.any(np.diff(width[0]) < -1e-4):
                res.violation("compute_widths:wrong", f"widths {width[0].tolist()} median {med[0]} expected {expw} {fr2[3]}", case)
    res.sample(dict(sub="helpers", waveform_length=L), cap=1)


def plan(tier, seed):
    jobs = []
    if tier == "quick":
        fp = [(1, 6, 1), (2, 6, 1), (3, 7, 8), (4, 5, 16)]
        helpers = [(L, 1) for L in (1, 2, 3, 4, 5)] + [(6, 4)]
        NS = 24
    else:
        fp = [(1, 7, 1), (2, 7, 1), (3, 7, 8), (4, 7, 32), (5, 5, 32)]
        helpers = [(L, 1) for L in (1, 2, 3, 4, 5)] + [(6, 4), (7, 16)]
        NS = 64
    for n, G, ns in fp:
        jobs += [("fp", n, G, s, ns) for s in range(ns)]
    jobs += [("sum", s, NS, tier, seed) for s in range(NS)]
    jobs += [("mm", 4, s, 4, tier) for s in range(4)]
    jobs += [("mm", 5, s, 16, tier) for s in range(16)] if tier == "thorough" else []
    for L, ns in helpers:
        jobs += [("helpers", L, s, ns) for s in range(ns)]
    return jobs


def run_job(job):
    res = Result()
    with warnings.catch_warnings():
        warnings.simplefilter("ignore")
        if job[0] == "fp":
            job_find_peaks(res, *job[1:])
        elif job[0] == "sum":
            job_sum(res, *job[1:])
        elif job[0] == "mm":
            job_merge_multi(res, *job[1:])
        else:
            job_helpers(res, *job[1:])
    res.count("cases_" + job[0], res.evals)
    return res


def replay(case):
    res = Result()
    tup = lambda x: tuple(tup(y) for y in x) if isinstance(x, list) else x
    s = case["sub"]
    with warnings.catch_warnings():
        warnings.simplefilter("ignore")
        if s == "find_peaks":
            check_find_peaks(res, tup(case["iv"]), tup(case["chans"]), case["gap"], case["le"], case["re"], case["max_duration"])
        elif s == "merge_multi":
            check_merge_multi(res, tup(case["lens"]), tup(case["gaps"]), tup(case["dts"]))
        elif s in ("sum_waveform", "merge_split"):
            out = check_sum(res, tup(case["wa"]), tup(case["wb"]), case["off"], case["blf"], case["gap"], case["le"], case["re"])
            if out is not None and s == "merge_split":
                r, hits, peaks, to_pe = out
                check_merge(res, peaks, case)
                check_split(res, r, hits, peaks, to_pe, case)
        else:
            w = tup(case["w"])
            L = len(w)
            idx = 0
            for x in w:
                idx = idx * 4 + x
            job_helpers(res, L, idx, 4**L)
    return res.violations


def sanity(total, tier):
    if len(total.sets.get("n_peaks", ())) < 3:
        return "find_peaks never produced 3 different peak counts"
    if total.counters.get("downsampled_peaks", 0) < 10:
        return "down-sampling was hardly exercised"
    if total.counters.get("splits", 0) < 10:
        return "peak splitting hardly happened"
    if total.counters.get("merge_two_ranges", 0) < 100 or total.counters.get("merge_downsampled", 0) < 100:
        return "multi-range / down-sampled merges hardly exercised"
