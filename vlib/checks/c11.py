"""C11 - only what is missing is computed, only what policy allows is saved."""
import itertools, os, warnings
import numpy as np
import strax
from immutabledict import immutabledict
from vlib.runner import Result
from vlib import graphs as g, ctxrun, vsched

ID = "C11"
LEVEL = "exploration"
RULE = (
    "graph src -> mo(mo_a, mo_b) -> {nn(mo_a), lp(mo_a, mo_b)} (a two-kind multi-output plugin whose outputs are consumed separately and together) x 24 per-output "
    "save-policy assignments (each type in turn ALWAYS/TARGET/EXPLICIT/NEVER, uniform assignments, mixed ones) x every subset "
    "of the 5 data types pre-stored x every target x save= {none, all EXPLICIT types} x request modifier {none, time_range, "
    "selection, keep_columns, fuzzy_for, allow_incomplete} x forbid_creation_of {none, one needed type, '*'} x frontends {one "
    "read-write; read-only + read-write; two read-write with take_only / exclude}; oracle = an independent reference planner: "
    "plugins that ran (compute counters) == plugins on a path from the target to the nearest stored types; every running plugin "
    "saw each whole-run input row exactly once and from the right origin (rows carry the phase in which their data type was computed: stored copy vs computed now); directories created == policy(save_when, target, save, modifier) per accepting "
    "writable frontend; additionally is_stored(run, (a, b)) for every ordered pair and make(run, (a, b)) for the multi-output plugin's two outputs in both orders == union of the single-target plans; DataNotAvailable when creation is forbidden or an ALWAYS type is missing under a time range. "
    "non-trivial: at least one plugin must run and one type is stored; distinct by the full configuration."
)
ASSUMPTIONS = [
    "one 5-type graph, 4 source rows in 2 chunks; single-thread and threaded processors alternate (threaded under the default schedule)",
    "modifier / forbid / frontend choices rotate over the (policy, stored subset, target, save) product in the quick tier; thorough enumerates the full product",
    "a TARGET-policy type missing under a time range is a don't-care (the statement names only always-saved types)",
]
BOUNDS = {"quick": "24 policies x 32 stored subsets x 5 targets x 2 save args, one rotating (modifier, forbid, frontends, processor) combination each", "thorough": "full product (6 modifiers x 3 forbid x 3 frontends)"}
RUN = "0"
SW = strax.SaveWhen
# lp consumes BOTH outputs of the multi-output plugin (two kinds): one may be loaded while the other is computed
SPEC = [g.N("src", "source"), g.N("mo", "multi", ["src"]), g.N("nn", "map", ["mo_a"]), g.N("lp", "loop", ["mo_a", "mo_b"])]
TYPES = ["src", "mo_a", "mo_b", "nn", "lp"]
PROVIDER = {"src": "src", "mo_a": "mo", "mo_b": "mo", "nn": "nn", "lp": "lp"}
PROVIDES = {"src": ["src"], "mo": ["mo_a", "mo_b"], "nn": ["nn"], "lp": ["lp"]}
DEPS = {"src": [], "mo": ["src"], "nn": ["mo_a"], "lp": ["mo_a", "mo_b"]}
KIND_OF = {"src": "k_src", "mo_a": "k_src", "mo_b": "k_mo_b", "nn": "k_src", "lp": "k_src"}
TAG = 1000  # rid = source row + TAG * phase in which the data type was computed (1: pre-stored, 2: request under test)
IV = ((0, 1), (1, 2), (3, 4), (4, 5))
BNDS = (0, 2, 6)
MODIFIERS = ("none", "time_range", "selection", "keep_columns", "fuzzy_for", "allow_incomplete")
FORBIDS = ("none", "one", "star")
FRONTENDS = ("rw", "ro+rw", "filters")
TAKE1 = ("src", "mo_a", "nn")  # frontend 1 of the 'filters' layout takes only these
EXCL2 = ("nn",)  # frontend 2 excludes these


def policies():
    P = []
    A = {t: SW.ALWAYS for t in TYPES}
    P.append(dict(A))
    for t in TYPES:
        for p in (SW.TARGET, SW.EXPLICIT, SW.NEVER):
            d = dict(A)
            d[t] = p
            P.append(d)
    for p in (SW.TARGET, SW.EXPLICIT, SW.NEVER):
        P.append({t: p for t in TYPES})
    P.append(dict(src=SW.NEVER, mo_a=SW.EXPLICIT, mo_b=SW.ALWAYS, nn=SW.TARGET, lp=SW.EXPLICIT))
    P.append(dict(src=SW.EXPLICIT, mo_a=SW.NEVER, mo_b=SW.TARGET, nn=SW.ALWAYS, lp=SW.TARGET))
    P.append(dict(src=SW.TARGET, mo_a=SW.TARGET, mo_b=SW.NEVER, nn=SW.EXPLICIT, lp=SW.ALWAYS))
    P.append(dict(src=SW.ALWAYS, mo_a=SW.ALWAYS, mo_b=SW.EXPLICIT, nn=SW.NEVER, lp=SW.NEVER))
    P.append(dict(src=SW.EXPLICIT, mo_a=SW.EXPLICIT, mo_b=SW.EXPLICIT, nn=SW.TARGET, lp=SW.ALWAYS))
    return P


_W = {}


def world_and_classes():
    if "c" not in _W:
        sources = {"src": dict(iv=IV, bounds=BNDS)}
        w = g.World(SPEC, sources)
        w.tag = 1

        def tagger(node, idx, plugin, r, start, end):
            def t(a):
                if isinstance(a, strax.Chunk):
                    a.data["rid"] = a.data["rid"] % TAG + TAG * w.tag
                else:
                    a["rid"] = a["rid"] % TAG + TAG * w.tag
                return a

            return {k: t(v) for k, v in r.items()} if isinstance(r, dict) else t(r)

        w.post = tagger
        attrs = {n["name"]: dict(rechunk_on_save=False) for n in SPEC}
        _W["c"] = (w, g.make_classes(SPEC, w, attrs), g.reference(SPEC, sources))
    return _W["c"]


def set_policy(classes, pol):
    for cls in classes:
        prov = strax.to_str_tuple(cls.provides)
        if len(prov) > 1:
            cls.save_when = immutabledict({p: pol[p] for p in prov})
        else:
            cls.save_when = pol[prov[0]]


def frontends(layout, base, readonly_store=False):
    d0, d1, d2 = (os.path.join(base, x) for x in ("d0", "d1", "d2"))
    if layout == "rw":
        return [strax.DataDirectory(d1)]
    if layout == "ro+rw":
        return [strax.DataDirectory(d0, readonly=not readonly_store), strax.DataDirectory(d1, readonly=readonly_store)]
    return [strax.DataDirectory(d1, take_only=TAKE1), strax.DataDirectory(d2, exclude=EXCL2)]


def accepting_dirs(layout, t):
    """directories (d-names) of WRITABLE frontends that accept type t during the request"""
    if layout == "rw":
        return ["d1"]
    if layout == "ro+rw":
        return ["d1"]
    out = []
    if t in TAKE1:
        out.append("d1")
    if t not in EXCL2:
        out.append("d2")
    return out


def listing(base):
    out = set()
    for dn in ("d0", "d1", "d2"):
        p = os.path.join(base, dn)
        if os.path.isdir(p):
            for x in os.listdir(p):
                out.add(dn + "/" + x)
    return out


def reference_plan(pol, stored, target, save, modifier, forbid):
    """-> ('error', kind) | ('ok', run_plugins, loaded_types, saved_types)"""
    run, load = [], set()
    err = []

    def need(t):
        if t in stored:
            load.add(t)
            return
        P = PROVIDER[t]
        # creating t
        if modifier == "time_range" and pol[t] == SW.ALWAYS:
            err.append("time_range")
        if modifier == "time_range" and pol[t] == SW.TARGET:
            err.append("dontcare")
        if forbid == "star" or (isinstance(forbid, tuple) and t in forbid):
            err.append("forbid")
        if P in run:
            return
        run.append(P)
        for dd in DEPS[P]:
            need(dd)

    need(target)
    if err:
        return ("error", set(err))
    saved = set()
    if modifier == "none":
        for P in run:
            for dt in PROVIDES[P]:
                if dt in stored:
                    continue
                p = pol[dt]
                if p == SW.ALWAYS or (p == SW.TARGET and dt == target) or (p == SW.EXPLICIT and dt in save):
                    saved.add(dt)
    return ("ok", set(run), load, saved)


def run_case(res, pi, stored, target, use_save, modifier, forbid_kind, layout, proc):
    pol = policies()[pi]
    world, classes, ref = world_and_classes()
    stored = frozenset(stored)
    case = dict(policy=pi, stored=sorted(stored), target=target, use_save=use_save, modifier=modifier, forbid=forbid_kind, frontends=layout, processor=proc)
    base = ctxrun.fresh_dir("c11")
    # ---- pre-store the subset (everything EXPLICIT, one type at a time, into the storing frontend)
    set_policy(classes, {t: SW.EXPLICIT for t in TYPES})
    world.tag = 1
    st0 = strax.Context(storage=frontends(layout, base, readonly_store=True), register=classes, **g.CTX_DEFAULTS)
    for t in TYPES:
        if t in stored:
            st0.make(RUN, t, save=(t,), processor="single_thread", progress_bar=False)
    # a type no frontend accepts cannot be stored
    eff_stored = frozenset(t for t in stored if st0.is_stored(RUN, t))
    # ---- request under test
    set_policy(classes, pol)
    world.tag = 2
    save = tuple(t for t in TYPES if pol[t] == SW.EXPLICIT) if use_save else ()
    forbid = None
    if forbid_kind == "star":
        forbid = "star"
    elif forbid_kind == "one":
        # forbid the provider-type of the target's first dependency (or the target itself for the source)
        dep = DEPS[PROVIDER[target]]
        forbid = (dep[0],) if dep else (target,)
    opts = dict(g.CTX_DEFAULTS)
    if forbid == "star":
        opts["forbid_creation_of"] = "*"
    elif forbid:
        opts["forbid_creation_of"] = forbid
    if modifier == "fuzzy_for":
        opts["fuzzy_for"] = ("src",)
    if modifier == "allow_incomplete":
        opts["allow_incomplete"] = True
        opts["allow_lazy"] = False
    st = strax.Context(storage=frontends(layout, base), register=classes, **opts)
    kw = dict(save=save, processor=proc, progress_bar=False)
    if modifier == "time_range":
        kw["time_range"] = (0, 6 * g.SCALE)
    elif modifier == "selection":
        kw["selection"] = "rid >= 0"
    elif modifier == "keep_columns":
        kw["keep_columns"] = ("time", "endtime", "rid")
    world.calls.clear()
    world.source_calls.clear()
    world.log.clear()
    before = listing(base)
    exp = reference_plan(pol, eff_stored, target, save, modifier, forbid)
    exc = got = None
    f = lambda: st.get_array(RUN, target, **kw)
    try:
        with warnings.catch_warnings():
            warnings.simplefilter("ignore")
            got = ctxrun.run_controlled(f) if proc == "threaded_mailbox" else f()
    except ctxrun.Deadlock as e:
        res.violation("deadlock", str(e), case)
        return
    except Exception as e:
        exc = e
    after = listing(base)
    created = {x for x in after - before}
    ran = {n for n in ("mo", "nn", "lp") if world.calls.get(n, 0) > 0} | ({"src"} if world.source_calls.get("src", 0) > 0 else set())
    if exp[0] == "error":
        kinds = exp[1]
        if kinds == {"dontcare"}:
            return
        if exc is None:
            if "dontcare" in kinds and not (kinds - {"dontcare"}):
                return
            res.violation(f"no-error:{'+'.join(sorted(kinds - {'dontcare'}))}", f"a needed type may not be created ({sorted(kinds)}) but the request succeeded; ran {sorted(ran)}", case)
        elif not isinstance(exc, strax.DataNotAvailable):
            res.violation(f"wrong-error:{type(exc).__name__}", f"expected DataNotAvailable, got {type(exc).__name__}: {exc}"[:300], case)
        if ran and "dontcare" not in kinds:
            res.violation("computed-despite-error", f"plugins {sorted(ran)} ran although the request had to fail", case)
        if created:
            res.violation("saved-despite-error", f"{sorted(created)} created although the request failed", case)
        return
    _, exp_run, exp_load, exp_saved = exp
    if exc is not None:
        res.violation("raised:" + ctxrun.exc_fp(exc), f"valid request raised {type(exc).__name__}: {exc}"[:300], case)
        return
    if ran != exp_run:
        res.violation(f"ran:{'extra' if ran - exp_run else 'missing'}", f"plugins that ran {sorted(ran)} != reference planner {sorted(exp_run)} (stored {sorted(eff_stored)}, target {target})", case)
    if modifier in ("none", "selection", "keep_columns", "fuzzy_for", "allow_incomplete"):
        if modifier in ("none", "fuzzy_for", "allow_incomplete"):
            g2 = got.copy()
            g2["rid"] %= TAG
            if not ctxrun.rows_equal(g2, ref[target]):
                res.violation("rows", "result differs from the whole-run reference", case)
            want_tag = 1 if target in eff_stored else 2
            if len(got) and set((got["rid"] // TAG).tolist()) != {want_tag}:
                res.violation("origin:target", f"target {target} came from phase {sorted(set((got['rid'] // TAG).tolist()))}, expected {want_tag} (1 = stored copy, 2 = computed now)", case)
        # every running plugin saw each input row exactly once, from the right origin (stored copy vs computed now)
        for node in ("mo", "nn", "lp"):
            if node not in ran:
                continue
            for dep in DEPS[node]:
                kind = KIND_OF[dep]
                seen = [r for (n, s, e, arrs) in world.log if n == node for r in arrs.get(kind, ())]
                want = [int(x) for x in ref[dep]["rid"]]
                if [r % TAG for r in seen] != want:
                    res.violation(f"rows-delivered:{node}", f"{node} saw {dep} rows {seen}, expected {want} exactly once each", case)
                    continue
                want_tag = 1 if dep in eff_stored else 2
                if seen and set(r // TAG for r in seen) != {want_tag}:
                    res.violation(f"origin:{node}:{dep}", f"{node} received {dep} from phase {sorted(set(r // TAG for r in seen))}, expected {want_tag} (1 = stored copy, 2 = computed now)", case)
    # directories created
    exp_dirs = set()
    for t in exp_saved:
        exp_dirs |= {dn for dn in accepting_dirs(layout, t)}
    got_types = {}
    for x in created:
        dn, name = x.split("/")
        if name.endswith("_temp"):
            res.violation("temp-left", f"temporary directory {x} left behind", case)
            continue
        parts = name.split("-")
        got_types.setdefault(parts[1], set()).add(dn)
    exp_types = {t: set(accepting_dirs(layout, t)) for t in exp_saved if accepting_dirs(layout, t)}
    if got_types != exp_types:
        extra = {t for t in got_types if t not in exp_types}
        missing = {t for t in exp_types if t not in got_types}
        tag = "saved-extra" if extra else ("saved-missing" if missing else "saved-wrong-frontend")
        res.violation(f"{tag}:{modifier}", f"saved {dict((k, sorted(v)) for k, v in got_types.items())} expected {dict((k, sorted(v)) for k, v in exp_types.items())} (policy {dict((k, int(v)) for k, v in pol.items())}, save={save})", case)
    res.add_set("plans", (tuple(sorted(exp_run)), tuple(sorted(exp_saved))))


# (pairs of types from DIFFERENT plugins are left out: what make() promises for them - which of several end targets is driven,
# whether TARGET-policy applies to a non-final target - is not stated by the property or the documentation)
PAIRS = (("mo_a", "mo_b"), ("mo_b", "mo_a"))


def run_multi(res, pi, stored, use_save, layout, proc):
    """several targets in one call: is_stored(run, (a, b)) == is_stored(a) and is_stored(b) for every ordered pair of types, and
    make(run, (a, b)) runs / saves the union of what the single-target plans need (the multi-output plugin's two outputs, both orders)"""
    pol = policies()[pi]
    stored = frozenset(stored)
    for targets in PAIRS:
        world, classes, ref = world_and_classes()
        case = dict(multi=True, policy=pi, stored=sorted(stored), targets=targets, use_save=use_save, frontends=layout, processor=proc)
        base = ctxrun.fresh_dir("c11")
        set_policy(classes, {t: SW.EXPLICIT for t in TYPES})
        world.tag = 1
        st0 = strax.Context(storage=frontends(layout, base, readonly_store=True), register=classes, **g.CTX_DEFAULTS)
        for t in TYPES:
            if t in stored:
                st0.make(RUN, t, save=(t,), processor="single_thread", progress_bar=False)
        eff_stored = frozenset(t for t in stored if st0.is_stored(RUN, t))
        set_policy(classes, pol)
        world.tag = 2
        # (targets of different data kinds need allow_multiple=True, which strax only accepts outside lazy mode)
        st = strax.Context(storage=frontends(layout, base), register=classes, **dict(g.CTX_DEFAULTS, allow_lazy=False))
        # ---- is_stored with a tuple of targets
        if targets == PAIRS[0]:
            for a in TYPES:
                for b in TYPES:
                    if a != b and bool(st.is_stored(RUN, (a, b))) != (a in eff_stored and b in eff_stored):
                        res.violation("is_stored:tuple", f"is_stored(run, ({a}, {b})) = {st.is_stored(RUN, (a, b))} but separately {a in eff_stored}, {b in eff_stored}", dict(case, pair=(a, b)))
                        return
        save = tuple(t for t in TYPES if pol[t] == SW.EXPLICIT) if use_save else ()
        plans = [reference_plan(pol, eff_stored, t, save, "none", None) for t in targets]
        exp_run = set().union(*[p[1] for p in plans])
        exp_saved = set()
        for P in exp_run:
            for dt in PROVIDES[P]:
                if dt not in eff_stored and (pol[dt] == SW.ALWAYS or (pol[dt] == SW.TARGET and dt in targets) or (pol[dt] == SW.EXPLICIT and dt in save)):
                    exp_saved.add(dt)
        if all(t in eff_stored for t in targets):
            exp_run, exp_saved = set(), set()
        world.calls.clear()
        world.source_calls.clear()
        world.log.clear()
        before = listing(base)
        f = lambda: st.make(RUN, targets, save=save, processor=proc, progress_bar=False, allow_multiple=True)
        try:
            with warnings.catch_warnings():
                warnings.simplefilter("ignore")
                ctxrun.run_controlled(f) if proc == "threaded_mailbox" else f()
        except ctxrun.Deadlock as e:
            res.violation("multi:deadlock", str(e), case)
            continue
        except Exception as e:
            res.violation("multi:raised:" + ctxrun.exc_fp(e), f"make of {targets} raised {type(e).__name__}: {e}"[:300], case)
            continue
        ran = {n for n in ("mo", "nn", "lp") if world.calls.get(n, 0) > 0} | ({"src"} if world.source_calls.get("src", 0) > 0 else set())
        if ran != exp_run:
            res.violation(f"multi:ran:{'extra' if ran - exp_run else 'missing'}", f"make({targets}): plugins that ran {sorted(ran)} != union of the single-target plans {sorted(exp_run)} (stored {sorted(eff_stored)})", case)
            continue
        got_types = {}
        for x in listing(base) - before:
            dn, name = x.split("/")
            got_types.setdefault(name.split("-")[1], set()).add(dn)
        exp_types = {t: set(accepting_dirs(layout, t)) for t in exp_saved if accepting_dirs(layout, t)}
        if got_types != exp_types:
            res.violation("multi:saved", f"make({targets}, save={save}): saved {dict((k, sorted(v)) for k, v in got_types.items())} expected {dict((k, sorted(v)) for k, v in exp_types.items())} (stored {sorted(eff_stored)}, policy {dict((k, int(v)) for k, v in pol.items())})", case)
        res.count("multi_target_cases")


def plan(tier, seed):
    NS = 32 if tier == "quick" else 128
    return [(sh, NS, tier, seed) for sh in range(NS)]


def worker_init():
    vsched.install()
    g.quiet()
    import strax.storage.files as F

    F.print = lambda *a, **k: None


def run_job(job):
    sh, ns, tier, seed = job
    res = Result()
    P = policies()
    subsets = [frozenset(c) for k in range(len(TYPES) + 1) for c in itertools.combinations(TYPES, k)]
    i = -1
    for pi in range(len(P)):
        for stored in subsets:
            for target in TYPES:
                for use_save in (False, True):
                    i += 1
                    if i % ns != sh:
                        continue
                    j = i // ns + seed
                    if tier == "quick":
                        combos = [(MODIFIERS[j % 6], FORBIDS[(j // 36) % 3], FRONTENDS[(j // 6) % 3], ("single_thread", "threaded_mailbox")[(j // 18) % 2])]
                    else:
                        combos = [(m, fb, fe, ("single_thread", "threaded_mailbox")[(k + j) % 2]) for k, (m, fb, fe) in enumerate(itertools.product(MODIFIERS, FORBIDS, FRONTENDS))]
                    for modifier, forbid, layout, proc in combos:
                        res.evals += 1
                        if stored and target not in stored:
                            res.nt(pi, tuple(sorted(stored)), target, use_save, modifier, forbid, layout, proc)
                        res.add_set("mod_forbid_frontend", (modifier, forbid, layout, proc))
                        run_case(res, pi, stored, target, use_save, modifier, forbid, layout, proc)
                    if target == "src" and (tier == "thorough" or (i // ns) % 2 == 0):
                        res.evals += 1
                        # (several targets of different data kinds are only supported by the threaded processor)
                        run_multi(res, pi, stored, use_save, FRONTENDS[(j // 6) % 3], "threaded_mailbox")
                    if i % 1013 == 0:
                        res.sample(dict(policy={k: int(v) for k, v in P[pi].items()}, stored=sorted(stored), target=target, save_explicit_types=use_save, combos=combos[:1]), cap=2)
    return res


def replay(case):
    worker_init()
    res = Result()
    if case.get("multi"):
        run_multi(res, case["policy"], case["stored"], case["use_save"], case["frontends"], case["processor"])
        return res.violations
    run_case(res, case["policy"], case["stored"], case["target"], case["use_save"], case["modifier"], case["forbid"], case["frontends"], case["processor"])
    return res.violations


def sanity(total, tier):
    if len(total.sets.get("plans", ())) < 20:
        return f"only {len(total.sets.get('plans', ()))} distinct (run set, saved set) plans"
    if total.counters.get("multi_target_cases", 0) < 200:
        return "too few multi-target cases"
    if len(total.sets.get("mod_forbid_frontend", ())) < 30:
        return "too few modifier/forbid/frontend combinations"
