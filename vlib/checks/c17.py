"""C17 - interval primitives vs. direct quadratic evaluation of their definitions."""
import itertools, warnings
import numpy as np
import strax
from vlib.runner import Result
from vlib import smallscope as ss

ID = "C17"
LEVEL = "exploration"
RULE = (
    "all configurations of <=T things x <=C containers with endpoints on a 0..G grid, both endtime encodings, windows "
    "-2..3, under the documented preconditions (sorted starts; non-overlapping containers for containment; sorted "
    "thing endtimes for exact touching windows; non-overlapping things and intervals for time-to-neighbour); "
    "overlap_indices over all (a1,n_a,b1,n_b) in a box; diff/_find_break_i/from_break over all arrays; "
    "sort_by_time over all unsorted (time,channel) arrays of <=4-5 rows, and over deterministic tie-heavy families of 15..1000 rows "
    "(8 key patterns x 3 channel patterns x 14 sizes around the usual insertion-sort cut-offs) against a stable lexsort; unsorted inputs must be rejected. "
    "non-trivial: at least one thing and one container (resp. >=2 rows); distinct by input."
)
ASSUMPTIONS = [
    "small-scope hypothesis: <=4 things, <=3 containers, grid 0..6",
    "zero-length intervals are outside the scope (which container holds a zero-length thing on a shared endpoint is unspecified)",
    "the 'randomly for larger arrays' clause of the quantifier is not covered (sampling is outside this technique family)",
]
BOUNDS = {"quick": "things<=3 (grid 0..6), things=4 on grid 0..5; containers<=3", "thorough": "things<=4 grid 0..6, containers<=3; sort arrays<=5"}

DTC = np.dtype(strax.time_fields + [(("container id", "cid"), np.int32)])


def arr(iv, enc):
    return ss.mk_rows(iv, ss.DT_END if enc == 0 else ss.DT_DTLEN)


# ------------------------------------------------------------------ references
def ref_contained(th, co):
    out = []
    for a, b in th:
        cands = [j for j, (c, d) in enumerate(co) if c <= a and b <= d]
        out.append(cands)
    return out


def ref_touch(th, co, w):
    return [[i for i, (a, b) in enumerate(th) if b > c - w and a < d + w] for c, d in co]


def ref_prev_next(th, iv):
    p, n = [], []
    for a, b in th:
        pe = [a - d for c, d in iv if d <= a]
        ne = [c - b for c, d in iv if c >= b]
        p.append(min(pe) if pe else -1)
        n.append(min(ne) if ne else -1)
    return p, n


# ------------------------------------------------------------------ sub-checks
def check_containment(res, th, co, enc):
    case = dict(sub="containment", things=th, containers=co, enc=enc)
    T, C = arr(th, enc), arr(co, enc)
    exp = ref_contained(th, co)
    try:
        got = strax.fully_contained_in(T, C)
    except Exception as e:
        res.violation(f"contained:raised:{type(e).__name__}", str(e), case)
        return
    if len(got) != len(th):
        res.violation("contained:length", f"result has {len(got)} entries for {len(th)} things", case)
        return
    for i, g in enumerate(got):
        if (g == -1) != (not exp[i]) or (g != -1 and int(g) not in exp[i]):
            res.violation("contained:wrong", f"thing {i}: got {int(g)}, containing containers {exp[i]}", case)
            return
    # split_by_containment
    try:
        sp = strax.split_by_containment(T, C)
    except Exception as e:
        res.violation(f"split_by_containment:raised:{type(e).__name__}", str(e), case)
        return
    if len(sp) != len(co):
        res.violation("split_by_containment:length", f"{len(sp)} groups for {len(co)} containers", case)
        return
    for j in range(len(co)):
        want = [i for i in range(len(th)) if j in exp[i]]
        g = list(sp[j]["rid"])
        if g != want or sp[j].dtype != T.dtype:
            res.violation("split_by_containment:wrong", f"container {j}: got things {g}, expected {want}", case)
            return


def check_touching(res, th, co, enc, exact):
    T, C = arr(th, enc), arr(co, enc)
    for w in range(-2, 4):
        res.evals += 1
        case = dict(sub="touching", things=th, containers=co, enc=enc, window=w)
        exp = ref_touch(th, co, w)
        try:
            got = strax.touching_windows(T, C, window=w)
        except Exception as e:
            res.violation(f"touching:raised:{type(e).__name__}", str(e), case)
            return
        if got.shape != (len(co), 2):
            res.violation("touching:shape", f"{got.shape}", case)
            return
        for j in range(len(co)):
            r0, r1 = int(got[j, 0]), int(got[j, 1])
            sel = list(range(r0, r1)) if r1 > r0 else []
            if exact:
                if sel != exp[j]:
                    res.violation("touching:wrong", f"container {j} window {w}: got [{r0},{r1}) expected things {exp[j]}", case)
                    return
            else:
                # unsorted endtimes: documented fall-back = first and last touching thing
                if exp[j] and (r0 != exp[j][0] or r1 < exp[j][-1] + 1) or (not exp[j] and False):
                    res.violation("touching:fallback-wrong", f"container {j} window {w}: got [{r0},{r1}) touching {exp[j]}", case)
                    return
        if exact:
            try:
                spl = strax.split_touching_windows(T, C, window=w)
                if [list(x["rid"]) for x in spl] != exp:
                    res.violation("split_touching:wrong", f"window {w}: {[list(x['rid']) for x in spl]} != {exp}", case)
                    return
            except Exception as e:
                if len(co):  # numba cannot type an empty reflected list; not part of the definition
                    res.violation(f"split_touching:raised:{type(e).__name__}", str(e)[:200], case)
                    return


def check_prevnext(res, th, iv, enc):
    case = dict(sub="prevnext", things=th, intervals=iv, enc=enc)
    T, I = arr(th, enc), arr(iv, enc)
    ep, en = ref_prev_next(th, iv)
    try:
        p, n = strax.abs_time_to_prev_next_interval(T, I)
    except Exception as e:
        res.violation(f"prevnext:raised:{type(e).__name__}", str(e), case)
        return
    if list(p) != ep or list(n) != en:
        res.violation("prevnext:wrong", f"got prev {list(p)} next {list(n)}; expected {ep} {en}", case)


def job_pairs(res, nt, nc, G, shard, nshards):
    k = -1
    conts = list(ss.interval_sets(nc, 0, G, min_len=1, disjoint=True))
    conts_any = list(ss.interval_sets(nc, 0, G, min_len=1)) if nc <= 2 else conts
    for th in ss.interval_sets(nt, 0, G, min_len=1):
        k += 1
        if k % nshards != shard:
            continue
        ends_sorted = all(th[i][1] <= th[i + 1][1] for i in range(len(th) - 1))
        th_disjoint = all(th[i][1] <= th[i + 1][0] for i in range(len(th) - 1))
        enc = k % 2
        for co in conts:
            res.evals += 1
            if nt and nc:
                res.nt("c", th, co)
            check_containment(res, th, co, enc)
            if th_disjoint:
                res.evals += 1
                check_prevnext(res, th, co, enc)
        for co in conts_any:  # containers may overlap for touching windows
            if nt and nc:
                res.nt("t", th, co)
            check_touching(res, th, co, enc, ends_sorted)
    res.sample(dict(sub="pairs", things=[(0, 2), (2, 3)], containers=[(1, 3)]), cap=1)


def job_overlap(res, lim):
    for a1 in range(-lim, lim + 1):
        for na in range(0, lim + 1):
            for b1 in range(-lim, lim + 1):
                for nb in range(0, lim + 1):
                    res.evals += 1
                    case = dict(sub="overlap", a1=a1, n_a=na, b1=b1, n_b=nb)
                    lo, hi = max(a1, b1), min(a1 + na, b1 + nb)
                    exp = ((0, 0), (0, 0)) if hi <= lo else ((lo - a1, hi - a1), (lo - b1, hi - b1))
                    if hi > lo:
                        res.nt("o", a1, na, b1, nb)
                    try:
                        got = strax.overlap_indices(a1, na, b1, nb)
                    except Exception as e:
                        res.violation(f"overlap:raised:{type(e).__name__}", str(e), case)
                        continue
                    got = tuple(tuple(int(x) for x in y) for y in got)
                    if got != exp:
                        res.violation("overlap:wrong", f"got {got} expected {exp}", case)
    for na, nb in ((-1, 1), (1, -1)):
        try:
            strax.overlap_indices(0, na, 0, nb)
            res.violation("overlap:negative-accepted", "negative length accepted", dict(sub="overlap", a1=0, n_a=na, b1=0, n_b=nb))
        except ValueError:
            pass
    res.sample(dict(sub="overlap", a1=0, n_a=3, b1=2, n_b=4), cap=1)


def check_diff_break(res, iv, enc):
    X = arr(iv, enc)
    case = dict(sub="diff", iv=iv, enc=enc)
    exp = [iv[i + 1][0] - max(b for a, b in iv[: i + 1]) for i in range(len(iv) - 1)]
    got = list(strax.diff(X))
    if got != exp:
        res.violation("diff:wrong", f"got {got} expected {exp}", case)
    if len(iv) < 1:
        return
    for sb in range(0, 4):
        for nb in (0, 2, 5):
            res.evals += 1
            case = dict(sub="break", iv=iv, enc=enc, safe_break=sb, not_before=nb)
            e_i = None
            for i in range(1, len(iv)):
                if iv[i][0] >= max(nb, max(b for a, b in iv[:i])) + sb:
                    e_i = i
                    break
            for left in (True, False):
                try:
                    part, bt = strax.from_break(X, safe_break=sb, not_before=nb, left=left)
                    if e_i is None:
                        res.violation("break:found-but-none", f"returned break at t={bt}, none exists", case)
                        return
                    w = X[:e_i] if left else X[e_i:]
                    if bt != iv[e_i][0] or not np.array_equal(part, w):
                        res.violation("break:wrong", f"left={left} got break {bt}, {len(part)} rows; expected index {e_i}", case)
                        return
                except strax.NoBreakFound:
                    if e_i is not None:
                        res.violation("break:not-found", f"break exists at index {e_i}", case)
                        return
                except Exception as e:
                    res.violation(f"break:raised:{type(e).__name__}", str(e)[:200], case)
                    return


def job_diff(res, n, G, shard, nshards):
    k = -1
    for iv in ss.interval_sets(n, 0, G, min_len=1):
        k += 1
        if k % nshards != shard:
            continue
        res.evals += 1
        if n >= 2:
            res.nt("d", iv)
        check_diff_break(res, iv, k % 2)
    res.sample(dict(sub="diff", iv=[(0, 3), (1, 2), (4, 5)]), cap=1)


def job_unsorted(res, G):
    """inputs violating sortedness must be rejected"""
    sorted2 = list(ss.interval_sets(2, 0, G, min_len=1, disjoint=True))
    for th in itertools.product([(a, b) for a in range(G) for b in range(a + 1, G + 1)], repeat=2):
        if th[0][0] <= th[1][0]:
            continue  # only unsorted starts
        for co in sorted2[:6]:
            for fn, args in (
                ("fully_contained_in", (th, co)),
                ("fully_contained_in", (co, th)),
                ("split_by_containment", (th, co)),
                ("touching_windows", (th, co)),
                ("touching_windows", (co, th)),
                ("abs_time_to_prev_next_interval", (th, co)),
                ("abs_time_to_prev_next_interval", (co, th)),
            ):
                res.evals += 1
                res.nt("u", fn, args)
                case = dict(sub="unsorted", fn=fn, a=args[0], b=args[1])
                try:
                    getattr(strax, fn)(arr(args[0], 0), arr(args[1], 0))
                    res.violation(f"unsorted-accepted:{fn}", "unsorted input answered instead of rejected", case)
                except ValueError:
                    pass
                except Exception as e:
                    res.violation(f"unsorted-wrong-exc:{fn}:{type(e).__name__}", str(e)[:200], case)
    res.sample(dict(sub="unsorted", a=[(3, 4), (0, 1)], b=[(0, 5)]), cap=1)


SORT_DT = np.dtype([("time", np.int64), ("endtime", np.int64), ("channel", np.int16), ("rid", np.int32)])
SORT_DT_NOCH = np.dtype([("time", np.int64), ("endtime", np.int64), ("rid", np.int32)])


def job_sort(res, n, shard, nshards):
    k = -1
    times = (0, 1, 2, 5)
    chans = (-1, 0, 3)
    for combo in itertools.product(itertools.product(times, chans), repeat=n):
        k += 1
        if k % nshards != shard:
            continue
        res.evals += 1
        x = np.zeros(n, SORT_DT)
        for i, (t, c) in enumerate(combo):
            x[i] = (t, t + 1, c, i)
        case = dict(sub="sort", rows=combo)
        exp = sorted(range(n), key=lambda i: (combo[i][0], combo[i][1]))  # python sort is stable
        if exp != list(range(n)):
            res.nt("s", combo)
        try:
            a = strax.sort_by_time(x.copy())
            b = strax.sort_by_time(x.copy())
        except Exception as e:
            res.violation(f"sort:raised:{type(e).__name__}", str(e)[:200], case)
            continue
        if list(a["rid"]) != exp:
            res.violation("sort:wrong-or-unstable", f"got order {list(a['rid'])} expected {exp}", case)
        if not np.array_equal(a, b):
            res.violation("sort:nondeterministic", "two runs differ", case)
        # without channel field: by time only, stable
        y = np.zeros(n, SORT_DT_NOCH)
        y["time"] = x["time"]
        y["endtime"] = x["endtime"]
        y["rid"] = x["rid"]
        exp2 = sorted(range(n), key=lambda i: combo[i][0])
        try:
            g = strax.sort_by_time(y)
            if list(g["rid"]) != exp2:
                res.violation("sort:nochannel-wrong-or-unstable", f"got {list(g['rid'])} expected {exp2}", case)
        except Exception as e:
            res.violation(f"sort:nochannel-raised:{type(e).__name__}", str(e)[:200], case)
    if shard == 0:
        # huge time spans take the np.sort(order=...) path
        big = np.iinfo(np.int64).max // 2
        for combo in itertools.product(itertools.product((0, 1, big), (0, 2)), repeat=min(n, 3)):
            x = np.zeros(len(combo), SORT_DT)
            for i, (t, c) in enumerate(combo):
                x[i] = (t, t + 1, c, i)
            res.evals += 1
            exp = sorted(range(len(combo)), key=lambda i: (combo[i][0], combo[i][1]))
            try:
                a = strax.sort_by_time(x)
                if [(r["time"], r["channel"]) for r in a] != [combo[i] for i in exp]:
                    res.violation("sort:bigspan-wrong", f"{combo}", dict(sub="sortbig", rows=combo))
            except Exception as e:
                res.violation(f"sort:bigspan-raised:{type(e).__name__}", str(e)[:200], dict(sub="sortbig", rows=combo))
        for kind in ("quicksort", "heapsort"):
            for f in (strax.stable_sort, strax.stable_argsort):
                try:
                    f(np.arange(3), kind=kind)
                    res.violation("sort:unstable-kind-accepted", f"{f.__name__}(kind={kind}) accepted", dict(sub="sortkind", kind=kind))
                except strax.sort_enforcement.SortingError:
                    pass
    res.sample(dict(sub="sort", rows=[(2, 0), (0, 3), (0, -1)]), cap=1)


# deterministic families of LONGER arrays with many ties: library sorts switch algorithm with the input size (an unstable sort is
# typically stable below its insertion-sort cut-off of ~16 elements), so stability has to be checked beyond the exhaustive sizes
SORT_SIZES = (15, 16, 17, 20, 31, 32, 33, 47, 64, 65, 100, 129, 257, 1000)
SORT_KEYS = {
    "const": lambda i, n: 0,
    "mod2": lambda i, n: i % 2,
    "mod3": lambda i, n: i % 3,
    "rev_mod2": lambda i, n: (n - i) % 2,
    "blocks_desc": lambda i, n: (n - i) // 8,
    "lcg5": lambda i, n: (i * 7 + 3) % 5,
    "saw": lambda i, n: min(i, n - i) % 4,
    "two_far": lambda i, n: 0 if i % 5 else 3,
}
SORT_CH = {"const": lambda i: 0, "alt": lambda i: i % 2, "desc3": lambda i: 2 - i % 3}


def job_sort_long(res):
    for n in SORT_SIZES:
        for kn, kf in SORT_KEYS.items():
            for cn, cf in SORT_CH.items():
                res.evals += 1
                res.nt("sl", n, kn, cn)
                case = dict(sub="sortlong", n=n, key=kn, chan=cn)
                t = np.array([kf(i, n) for i in range(n)], np.int64)
                c = np.array([cf(i) for i in range(n)], np.int16)
                x = np.zeros(n, SORT_DT)
                x["time"], x["endtime"], x["channel"], x["rid"] = t, t + 1, c, np.arange(n)
                exp = np.lexsort((np.arange(n), c, t))  # (time, channel), ties in input order
                try:
                    a = strax.sort_by_time(x.copy())
                    if list(a["rid"]) != list(exp):
                        bad = int(np.argmax(a["rid"] != exp))
                        res.violation("sort:long:wrong-or-unstable", f"n={n} key={kn} channel={cn}: first difference at position {bad}: row {a['rid'][bad]} instead of {exp[bad]}", case)
                    y = np.zeros(n, SORT_DT_NOCH)
                    y["time"], y["endtime"], y["rid"] = t, t + 1, np.arange(n)
                    b = strax.sort_by_time(y)
                    exp2 = np.lexsort((np.arange(n), t))
                    if list(b["rid"]) != list(exp2):
                        res.violation("sort:long:nochannel-wrong-or-unstable", f"n={n} key={kn}: ties not kept in input order", case)
                    for f in (strax.stable_argsort,):
                        if list(f(t)) != list(exp2):
                            res.violation("sort:long:stable_argsort", f"n={n} key={kn}", case)
                    if list(strax.stable_sort(t)) != sorted(t.tolist()):
                        res.violation("sort:long:stable_sort", f"n={n} key={kn}", case)
                except Exception as e:
                    res.violation(f"sort:long:raised:{type(e).__name__}", str(e)[:200], case)
    res.sample(dict(sub="sortlong", sizes=SORT_SIZES, keys=sorted(SORT_KEYS), channels=sorted(SORT_CH)), cap=1)


SUBS = dict(sortlong=job_sort_long, pairs=job_pairs, overlap=job_overlap, diff=job_diff, unsorted=job_unsorted, sort=job_sort)


def plan(tier, seed):
    jobs = []
    G = 6
    if tier == "quick":
        pairs = [(t, c, G, 1) for t in (0, 1, 2) for c in (0, 1, 2, 3)] + [(3, c, G, 16) for c in (0, 1, 2, 3)] + [(4, 1, 5, 16)]
        diffs = [(n, 7, 1) for n in (0, 1, 2, 3)] + [(4, 6, 16)]
        sorts = [(1, 1), (2, 1), (3, 4), (4, 16)]
        ov = 5
    else:
        pairs = [(t, c, G, 1) for t in (0, 1, 2) for c in (0, 1, 2, 3)] + [(t, c, G, 16) for t in (3, 4) for c in (0, 1, 2, 3)]
        diffs = [(n, 7, 1) for n in (0, 1, 2, 3)] + [(4, 7, 16), (5, 6, 16)]
        sorts = [(1, 1), (2, 1), (3, 4), (4, 16), (5, 64)]
        ov = 8
    for t, c, g, ns in pairs:
        jobs += [("pairs", t, c, g, s, ns) for s in range(ns)]
    for n, g, ns in diffs:
        jobs += [("diff", n, g, s, ns) for s in range(ns)]
    for n, ns in sorts:
        jobs += [("sort", n, s, ns) for s in range(ns)]
    jobs.append(("sortlong",))
    jobs.append(("overlap", ov))
    jobs.append(("unsorted", 4))
    return jobs


def run_job(job):
    res = Result()
    with warnings.catch_warnings():
        warnings.simplefilter("ignore")
        e0 = res.evals
        SUBS[job[0]](res, *job[1:])
    res.count("cases_" + job[0], res.evals)
    return res


def replay(case):
    res = Result()
    t = lambda x: tuple(tuple(y) for y in x)
    s = case["sub"]
    with warnings.catch_warnings():
        warnings.simplefilter("ignore")
        if s == "containment":
            check_containment(res, t(case["things"]), t(case["containers"]), case["enc"])
        elif s == "touching":
            th = t(case["things"])
            check_touching(res, th, t(case["containers"]), case["enc"], all(th[i][1] <= th[i + 1][1] for i in range(len(th) - 1)))
        elif s == "prevnext":
            check_prevnext(res, t(case["things"]), t(case["intervals"]), case["enc"])
        elif s in ("diff", "break"):
            check_diff_break(res, t(case["iv"]), case["enc"])
        elif s == "overlap":
            job_overlap(res, 8)
            res.violations = [v for v in res.violations if all(v["case"].get(k) == case[k] for k in ("a1", "n_a", "b1", "n_b"))]
        elif s == "unsorted":
            job_unsorted(res, 4)
            res.violations = [v for v in res.violations if v["case"]["fn"] == case["fn"]][:1]
        elif s == "sortlong":
            job_sort_long(res)
            res.violations = [v for v in res.violations if all(v["case"].get(k) == case[k] for k in ("n", "key", "chan"))]
        elif s.startswith("sort"):
            job_sort(res, len(case["rows"]), 0, 1)
            res.violations = [v for v in res.violations if [list(r) for r in v["case"].get("rows", [])] == [list(r) for r in case["rows"]]]
    return res.violations


def sanity(total, tier):
    for s in SUBS:
        if total.counters.get("cases_" + s, 0) < 20:
            return f"sub-check {s} explored only {total.counters.get('cases_'+s,0)} cases"
