"""C06 - failures reach the caller and never hang the pipeline.
Delay-bounded exploration of all thread schedules of the real ThreadedMailboxProcessor (through
Context.get_iter) for every (stage, chunk) failure position; positions only for the single-thread
processor."""
import numpy as np
import strax
from vlib.runner import Result
from vlib import graphs as g, ctxrun, vsched, explore, pipe

ID = "C06"
LEVEL = "model_checking"
RULE = (
    "(plus 26 failure cells with capacity 1-2 and 5 chunks, so that senders are blocked on FULL mailboxes when the failure happens) "
    "cells = graph {chain, diamond, multi-output with saved side output, chain with stored source, exhaust} x failing stage "
    "{source, mid plugin, multi-output plugin, loader, saver of target, saver of side output, consumer closing after k chunks, "
    "none} x chunk index {0,1,last} x mode {eager, lazy, worker pool}; for each cell every schedule of the real threaded "
    "processor with <=B delays (non-default scheduling choices) is executed under the controlled scheduler; oracle: the caller "
    "receives exactly the injected exception, no deadlock state, every pipeline thread has terminated when the call returns, "
    "mailbox capacity respected in every state, fault-free runs return the reference rows; the single-thread processor is "
    "checked at every failure position (it has one schedule)."
)
ASSUMPTIONS = [
    "schedules are exhausted up to the stated delay bound only (stateless exploration); atomic steps = lock/condition/thread/future operations",
    "condition waits never time out; a would-be timeout shows up as a deadlock state",
    "consumer abandonment: only 'all threads stop, nothing hangs' is required; the exception type raised by close() is not constrained",
]
BOUNDS = {"quick": "delay bound 1 for a fixed half of the cells (rotating with the seed), bound 0 for all", "thorough": "delay bound 1 for all cells, bound 2 for chain(2) cells"}

B3 = (0, 1, 2, 3)


def cells():
    C = []
    modes = ("eager", "lazy", "workers")
    for mode in modes:
        for i in (0, 1, 2):
            C.append(("chain2", B3, mode, ("plugin", "src", i), ("all",), (), None))
            C.append(("chain2", B3, mode, ("plugin", "mp", i), ("all",), (), None))
            C.append(("chain2", B3, mode, ("saver", "mp", i), ("all",), (), None))  # saver of the target
            C.append(("chain2", B3, mode, ("saver", "src", i), ("all",), (), None))  # saver of a side output
            C.append(("chain2", B3, mode, ("loader", "src", i), ("all",), ("src",), None))
            C.append(("diamond", B3, mode, ("plugin", "pa", i), ("all",), (), None))
            C.append(("diamond", B3, mode, ("plugin", "mg", i), ("all",), (), None))
            C.append(("multi_used", B3, mode, ("plugin", "mo", i), ("all",), (), None))
            C.append(("multi_used", B3, mode, ("saver", "mo_b", i), ("all",), (), None))
            C.append(("multi_used", B3, mode, ("plugin", "nn", i), ("all",), (), None))
        for k in (0, 1, 2):
            C.append(("chain2", B3, mode, None, ("close", k), (), None))
            C.append(("multi_used", B3, mode, None, ("close", k), (), None))
        C.append(("exhaust_end", B3, mode, ("plugin", "ex", 0), ("all",), (), None))
        # no failure: must terminate with the reference result (capacity 2 and 4)
        for gname in ("chain2", "diamond", "multi_used", "multi_merge", "exhaust_end", "down_mid", "overlap_mid"):
            C.append((gname, B3, mode, None, ("all",), (), 2))
            C.append((gname, B3, mode, None, ("all",), (), 4))
    # failures while mailboxes are FULL (capacity 1-2, 5 chunks): senders blocked in send() must be released by the kill
    B5 = (0, 1, 2, 3, 4, 5)
    for mode in ("eager", "lazy"):
        for cap in (1, 2):
            C.append(("chain2", B5, mode, ("plugin", "mp", 2), ("all",), (), cap))
            C.append(("chain2", B5, mode, ("saver", "mp", 1), ("all",), (), cap))
            C.append(("chain2", B5, mode, None, ("close", 1), (), cap))
            C.append(("chain3", B5, mode, ("plugin", "fl", 1), ("all",), (), cap))
            C.append(("chain3", B5, mode, ("plugin", "mp", 3), ("all",), (), cap))
        C.append(("multi_used", B5, mode, ("plugin", "nn", 1), ("all",), (), 2))
        C.append(("multi_used", B5, mode, ("saver", "mo_b", 2), ("all",), (), 2))
        C.append(("diamond", B5, mode, ("plugin", "mg", 2), ("all",), (), 2))
    return C


def mk_case(cell, processor="threaded_mailbox"):
    gname, b, mode, fault, consumer, stored, cap = cell
    return pipe.PipeCase(gname, b, mode=mode, max_messages=cap or 4, fault=fault, consumer=consumer, stored=stored, processor=processor)


class H(pipe.PipeHarness):
    def final(self, s):
        pc, o = self.pc, self.obs
        exc = o["exc"]
        key = (type(exc).__name__ if exc is not None else None, str(exc)[:60] if exc is not None else None, o["chunks"], tuple(o["live_at_return"] or ()))
        if s.deadlock:
            return key, None  # reported by the explorer
        stray = [(n, e) for n, e in s.uncaught if not isinstance(e, (pipe.Injected, strax.MailboxKilled))]
        if o["live_at_return"]:
            return key, f"threads still alive when the call returned: {o['live_at_return']}"
        if pc.fault is not None and pc.fault[0] in ("saver", "loader") and not o.get("io_fault_fired"):
            return key + ("fault-not-reached",), None  # e.g. an empty chunk has no file: nothing failed
        if pc.fault is not None:
            want = {"plugin": "%s@%d", "saver": "save:%s@%d", "loader": "load:%s@%d"}[pc.fault[0]] % (pc.fault[1], pc.fault[2])
            if exc is None:
                return key, f"failure {pc.fault} was injected but the caller got no exception ({o['chunks']} chunks delivered)"
            if pc.processor == "single_thread" and isinstance(exc, RuntimeError) and "already closed" in str(exc):
                return key, f"MASKED-BY-SAVER-ALREADY-CLOSED: single-thread processor raised 'saver already closed' instead of the injected Injected({want})"
            if not isinstance(exc, pipe.Injected) or str(exc) != want:
                return key, f"caller received {type(exc).__name__}: {str(exc)[:150]} instead of the injected Injected({want})"
        elif pc.consumer[0] == "close":
            pass  # all threads stopped (checked above); exception type of close() not constrained
        else:
            if exc is not None:
                return key, f"fault-free run raised {type(exc).__name__}: {str(exc)[:200]}"
            ref = g.reference(pc.spec, pc.sources())[g.final_target(pc.spec)]
            if o["rows"] is None or not ctxrun.rows_equal(o["rows"], ref):
                return key, "fault-free run returned rows different from the reference"
        return key, None


def plan(tier, seed):
    C = cells()
    jobs = []
    for i, cell in enumerate(C):
        if tier == "quick":
            bound = 1 if (i + seed) % 2 == 0 else 0
        else:
            bound = 2 if (cell[0] == "chain2" and cell[2] != "workers") else 1
        jobs.append(("threaded", i, bound))
    jobs.append(("single", 0, 0))
    jobs.sort(key=lambda j: -j[2])
    return jobs


def worker_init():
    pipe.install()


def run_job(job):
    kind, i, bound = job
    res = Result()
    C = cells()
    if kind == "single":
        # single-thread processor: every failure position, one schedule each
        for cell in C:
            if cell[2] != "eager":
                continue
            pc = mk_case(cell, "single_thread")
            h = H(pc)
            r = explore.explore(lambda: H(pc), regime="delay", bound=0, hashing=False)
            res.evals += 1
            res.count("single_thread_cells")
            res.count("executions", r.executions)
            res.count("transitions", r.transitions)
            res.count("states", r.transitions + 1)
            for k, msg, choices in r.violations[:2]:
                if msg.startswith("MASKED-BY-SAVER-ALREADY-CLOSED"):
                    res.violation(f"single:masked-by-saver-already-closed:{cell[3][0]}", f"single_thread {cell}: {msg}"[:400], dict(cell=pc.key(), choices=choices))
                    continue
                res.violation(f"single:{k}:{fp(msg)}:{stage(cell)}", f"single_thread {cell}: {msg}"[:400], dict(cell=pc.key(), choices=choices))
        return res
    cell = C[i]
    pc = mk_case(cell)
    r = explore.explore(lambda: H(pc), regime="delay", bound=bound, hashing=False, max_execs=40000)
    res.evals += 1
    res.count("cells")
    res.count(f"cells_bound{bound}")
    res.count("executions", r.executions)
    res.count("transitions", r.transitions)
    res.count("states", r.transitions + 1)  # stateless: every executed transition leads to a (not deduplicated) state
    res.mx("max_depth", r.maxdepth)
    res.add_set("terminal_observations", (i, tuple(sorted(map(repr, r.outcomes)))))
    res.nt(cell, bound)
    if r.cap_hit:
        res.caps_hit.append(f"cell {i}: {r.cap_hit}")
    if i % 17 == 0:
        res.sample(dict(cell=pc.key(), regime="delay", bound=bound, executions=r.executions, scheduling_points_max=r.maxdepth, distinct_terminal_observations=len(r.outcomes)), cap=1)
    for k, msg, choices in r.violations[:2]:
        res.violation(f"threaded:{k}:{fp(msg)}:{stage(cell)}", f"{cell} bound {bound}: {msg}"[:400], dict(cell=pc.key(), choices=choices))
    return res


def stage(cell):
    f = cell[3]
    return f"{f[0]}:{f[1]}" if f else f"{cell[4][0]}"


def fp(msg):
    import re

    return re.sub(r"[^A-Za-z:_ ]+", "#", msg)[:70]


def replay(case):
    pipe.install()
    pc = pipe.PipeCase.from_key(case["cell"])
    out = []
    for _ in range(2):
        h, s, info = explore.replay(lambda: H(pc), case["choices"])
        key, viol = h.final(s)
        if s.deadlock and not viol:
            viol = "deadlock"
        if info["inv"]:
            viol = viol or info["inv"][0]
        out.append(viol)
    if out[0] != out[1]:
        raise vsched.HarnessError(f"replay not deterministic: {out}")
    return [dict(fingerprint="replay:" + fp(out[0]), what=out[0])] if out[0] else []


def sanity(total, tier):
    if total.counters.get("executions", 0) < 500:
        return "fewer than 500 executions"
