"""C10 - time-range / row / column selections commute with chunking and storage."""
import os, warnings
import numpy as np
import strax
from vlib.runner import Result
from vlib import graphs as g, ctxrun, vsched

ID = "C10"
LEVEL = "exploration"
RULE = (
    "a stored 2-type same-kind graph (src -> mp) in three on-disk layouts (as produced in 3 chunks; rechunked to 1-row chunks; a "
    "single chunk); every (t0,t1), t0<=t1, with endpoints on the half-step grid from one step before the run to one step after "
    "it (on, just inside and just outside every row and chunk boundary) given as time_range, seconds_range and time_within x "
    "time_selection {fully_contained, touching} x selection {None, string, list of strings, callable} x columns {all, keep "
    "subset, drop subset} x targets {one type, two same-kind types together} x processor {single_thread, threaded}; oracle: "
    "predicate and projection applied to the whole-run result; a range overlapping no chunk must raise, a range overlapping a "
    "chunk but no row must give an empty result; the directory listing must not change. non-trivial: range overlaps the run "
    "and cuts at least one row off; distinct by (layout, range, form, mode, selection, columns, targets, processor)."
)
ASSUMPTIONS = [
    "one run of 6 rows (one spanning two grid steps); time unit 2 s per grid step so that seconds_range values are exact",
    "selection / column / target / processor choices rotate over the ranges in the quick tier (every pair of choices occurs); thorough takes the full product",
    "zero-width ranges (t0==t1) may either raise or return what the predicate selects",
]
BOUNDS = {"quick": "all 300 half-step ranges x 3 layouts x 3 forms x 2 modes with rotating selection/columns/targets/processor", "thorough": "full product"}
RUN = "0"
U = 2 * 10**9
H = 10**9
OFF = 10 * 10**9
IV = ((0, 1), (1, 3), (4, 5), (6, 7), (7, 8), (8, 9))
BNDS = (0, 3, 6, 10)
LAYOUTS = ("asis", "tiny", "single")
SELECTIONS = (None, "v_mp > 4", ["v_mp > 1", "rid < 4"], "callable")
COLUMNS = (None, ("keep", ("time", "rid")), ("drop", ("rid",)))
TARGETS = ("mp", ("src", "mp"))
PROCS = ("single_thread", "threaded_mailbox")
FORMS = ("time_range", "seconds_range", "time_within")
MODES = ("fully_contained", "touching")
_call = lambda x: x["rid"] % 2 == 0

_CACHE = {}


def setup(layout):
    if layout in _CACHE:
        return _CACHE[layout]
    spec = g.catalogue()["chain2"]
    sources = {"src": dict(iv=IV, bounds=BNDS, scale=U, offset=OFF)}
    world = g.World(spec, sources)
    attrs = {}
    for n in spec:
        a = {}
        if layout == "asis":
            a["rechunk_on_save"] = False
        else:
            a["rechunk_on_save"] = True
            a["chunk_target_size_mb"] = g.target_size_rows(1, n["name"]) if layout == "tiny" else 200
        attrs[n["name"]] = a
    classes = g.make_classes(spec, world, attrs)
    d = os.path.join(ctxrun.runner.workdir(), "c10_" + layout)
    os.makedirs(d, exist_ok=True)
    st = strax.Context(storage=[strax.DataDirectory(d)], register=classes, **g.CTX_DEFAULTS)
    st.make(RUN, "mp", processor="single_thread", progress_bar=False)
    ref = g.reference(spec, sources)
    full = {"mp": ref["mp"], ("src", "mp"): strax.merge_arrs([ref["src"], ref["mp"]], dtype=strax.merged_dtype([ref[t].dtype for t in sorted(("src", "mp"))]))}
    md = st.get_metadata(RUN, "mp")
    chunks = [(c["start"], c["end"]) for c in md["chunks"]]
    # the source data must also be stored in a different number of chunks for some layouts
    _CACHE[layout] = (st, d, full, chunks)
    return _CACHE[layout]


def expected(full, t0, t1, mode, selection, columns):
    x = full
    t, e = x["time"], strax.endtime(x)
    if mode == "fully_contained":
        m = (t0 <= t) & (e <= t1)
    else:
        m = (e > t0) & (t < t1)
    x = x[m]
    if selection is not None:
        if selection == "callable":
            x = x[_call(x)]
        else:
            sels = [selection] if isinstance(selection, str) else selection
            for s in sels:
                f, op, val = s.split()
                x = x[(x[f] > int(val)) if op == ">" else (x[f] < int(val))]
    if columns is not None:
        kind, cols = columns
        names = [n for n in x.dtype.names if (n in cols) == (kind == "keep")]
        y = np.zeros(len(x), dtype=[(n, x.dtype[n]) for n in names])
        for n in names:
            y[n] = x[n]
        x = y
    return x


def check(res, layout, a, b, form, mode, si, ci, ti, pi):
    st, d, fulls, chunks = setup(layout)
    selection, columns, targets, proc = SELECTIONS[si], COLUMNS[ci], TARGETS[ti], PROCS[pi]
    t0, t1 = OFF + a * H, OFF + b * H
    case = dict(layout=layout, a=a, b=b, form=form, mode=mode, selection=si, columns=ci, targets=ti, processor=pi)
    kw = dict(time_selection=mode, processor=proc, progress_bar=False)
    if form == "time_range":
        kw["time_range"] = (t0, t1)
    elif form == "seconds_range":
        kw["seconds_range"] = ((t0 - OFF) / 1e9, (t1 - OFF) / 1e9)
    else:
        tw = np.zeros(1, strax.time_fields)
        tw["time"], tw["endtime"] = t0, t1
        kw["time_within"] = tw[0]
    if selection is not None:
        kw["selection"] = _call if selection == "callable" else selection
    if columns is not None:
        kw["keep_columns" if columns[0] == "keep" else "drop_columns"] = columns[1]
    before = sorted(os.listdir(d))
    exc = got = None
    f = lambda: st.get_array(RUN, targets, **kw)
    try:
        with warnings.catch_warnings():
            warnings.simplefilter("ignore")
            got = ctxrun.run_controlled(f) if proc == "threaded_mailbox" else f()
    except ctxrun.Deadlock as e:
        res.violation("deadlock", str(e), case)
        return
    except Exception as e:
        exc = e
    after = sorted(os.listdir(d))
    if after != before:
        res.violation("partial-request-wrote", f"directory listing changed: {set(after) ^ set(before)}", case)
    overlaps = any(s < t1 and e > t0 for s, e in chunks)
    full = fulls[targets]
    exp = expected(full, t0, t1, mode, selection, columns)
    cls = f"{form}:{mode}"
    if t0 == t1:
        # a zero-width range may be refused; if it is answered the answer must still obey the predicate
        if exc is None and not ctxrun.rows_equal(got, exp):
            res.violation(f"zero-width-wrong:{cls}", f"zero-width range returned {len(got)} rows, predicate selects {len(exp)}", case)
        return
    if not overlaps:
        if exc is None:
            res.violation(f"no-chunk-no-error:{cls}", f"range [{t0},{t1}) overlaps no chunk but returned {len(got)} rows without error", case)
        return
    if exc is not None:
        res.violation(f"raised:{cls}:" + ctxrun.exc_fp(exc), f"range overlapping a chunk raised {type(exc).__name__}: {exc}"[:300], case)
        return
    if got.dtype.names != exp.dtype.names:
        res.violation(f"columns:{cls}", f"columns {got.dtype.names} != expected {exp.dtype.names}", case)
        return
    if not ctxrun.rows_equal(got, exp):
        res.violation(f"rows:{cls}:{layout}", f"got rids {list(got['rid']) if 'rid' in got.dtype.names else len(got)} expected {list(exp['rid']) if 'rid' in exp.dtype.names else len(exp)} for range [{a/2},{b/2}) grid steps"[:300], case)
    res.add_set("result_sizes", len(exp))


def grid_ranges():
    pts = range(-2, 23)  # half steps: from one step before the run (0) to one step after its end (20)
    return [(a, b) for a in pts for b in pts if a <= b]


def plan(tier, seed):
    NS = 16 if tier == "quick" else 64
    return [(sh, NS, tier, seed) for sh in range(NS)]


def worker_init():
    vsched.install()
    g.quiet()


def run_job(job):
    sh, ns, tier, seed = job
    res = Result()
    R = grid_ranges()
    i = -1
    for layout in LAYOUTS:
        for (a, b) in R:
            i += 1
            if i % ns != sh:
                continue
            j = i // ns + seed
            if tier == "quick":
                combos = [((j + k) % 4, ((j + k) // 4) % 3, ((j + k) // 12 + k) % 2, ((j + k) // 24 + k) % 2) for k in range(3)]
            else:
                combos = [(s, c, t, p) for s in range(4) for c in range(3) for t in range(2) for p in range(2)]
            for si, ci, ti, pi in combos:
                for form in FORMS:
                    for mode in MODES:
                        res.evals += 1
                        if 0 < b and a < 20 and (a > 0 or b < 20) and a < b:
                            res.nt(layout, a, b, form, mode, si, ci, ti, pi)
                        res.add_set("choice_pairs", (si, ci, ti, pi))
                        check(res, layout, a, b, form, mode, si, ci, ti, pi)
            if i % 101 == 0:
                res.sample(dict(layout=layout, range_half_steps=(a, b), unit_ns=H, run_offset_ns=OFF, rows=IV, chunks=BNDS), cap=2)
    return res


def replay(case):
    worker_init()
    res = Result()
    check(res, case["layout"], case["a"], case["b"], case["form"], case["mode"], case["selection"], case["columns"], case["targets"], case["processor"])
    return res.violations


def sanity(total, tier):
    if len(total.sets.get("result_sizes", ())) < 4:
        return "fewer than 4 distinct result sizes"
    if len(total.sets.get("choice_pairs", ())) < 40:
        return f"only {len(total.sets.get('choice_pairs', ()))} selection/column/target/processor combinations"
