"""C04 - a crash or I/O failure never leaves wrong data visible as valid.
Enumerates EVERY file-system operation of a write history x fault variants on the real code."""
import itertools, os, shutil, warnings
import numpy as np
import strax
from vlib.runner import Result
from vlib import smallscope as ss, graphs as g, ctxrun, vsched, explore, fsfault

ID = "C04"
LEVEL = "fault_enumeration"
RULE = (
    "for each scenario (Context.make of chain / multi-output graphs with the single-thread processor, with the threaded "
    "processor and with a worker pool [controlled default schedule], rechunk on/off, bare Saver.save_from with and without "
    "thread-pool executor, copy_to_frontend, overwrite of broken data): one fault-free run logs the N mutating file-system "
    "operations (makedirs, create, write, rename, remove, rmtree); then for every k<N and every applicable fault variant "
    "{raise ENOSPC, raise after half write, die before, die after, die with torn write} the real code runs again; oracle from "
    "a FRESH Context: every type reported stored loads completely and equals the reference, raise-faults surface as an "
    "exception (or everything requested ended up stored and valid), an identical retry succeeds without manual cleanup and "
    "leaves everything valid; thorough: a second fault during the retry. non-trivial: every (scenario, k, variant) is a distinct fault. "
    "Second fault family (the statement's 'exception in any plugin or saver'): for every (stage, chunk) position of C06's cell catalogue "
    "(plugin compute of source / mid / multi-output / exhaust plugins, chunk write of a target or side-output saver, chunk read of a loader, "
    "consumer abandoning the iterator after k chunks) x {single-thread, threaded eager / lazy / worker pool} the real get_iter runs under the "
    "controlled scheduler over every thread schedule with <= B delays, and after the call returned a FRESH context must find every type it "
    "reports stored complete and equal to the whole-run reference."
)
ASSUMPTIONS = [
    "process death = no further file-system operation happens; completed operations persist (no power-loss reordering)",
    "forked / multi-process savers are exercised in-process only",
    "threaded scenarios run under two deterministic schedules (keep running the current thread / always switch to the newest enabled thread), so operation numbering is stable within a scenario; schedule x fault combinations only in the thorough tier (delay bound 1)",
]
BOUNDS = {"quick": "22 scenarios (two with a second writable frontend), all single faults + retry; 74 (stage, chunk) exception / abandon cells x processors at delay bound 0 (a rotating third at bound 1)", "thorough": "74 exception / abandon cells x processors at delay bound 1; 22 scenarios, single faults + retry + second fault during retry (every k2 for a rotating slice of k); schedule exploration of pool/threaded saving with one fault"}
RUN = "0"

IV = ((0, 1), (2, 3), (4, 5), (5, 6))


POLICY = {"first": None, "last": (lambda s, en, ce: len(en) - 1)}  # deterministic schedules for threaded scenarios


def variants_for(kind):
    v = [("raise", "plain"), ("die", "before"), ("die", "after")]
    if kind == "write":
        v += [("raise", "half"), ("die", "torn")]
    return v


class Scenario:
    """prepare(d) -> state; action(state) performs the request under test; expected() -> {type: rows}"""

    name = "?"
    threaded = False

    def build(self, d):
        raise NotImplementedError


class MakeScenario(Scenario):
    def __init__(self, gname, bounds, rechunk, processor, workers=None, call="make", prebroken=False, forbid=None, inline=False, policy="first", two=False):
        self.gname, self.bounds, self.rechunk, self.processor, self.workers, self.call, self.prebroken = gname, bounds, rechunk, processor, workers, call, prebroken
        self.policy = policy
        self.two = two  # a second writable storage frontend: every computed type is saved to both
        self.inline = inline  # allow_multiprocess + parallel='process' plugins -> ParallelSourcePlugin with inlined (forked) savers, run in-process
        self.name = f"{call}:{gname}:{processor}:w{workers}:rc{rechunk}:b{len(bounds)-1}" + (":prebroken" if prebroken else "") + (":inlined" if inline else "") + (":sched-last" if policy == "last" else "") + (":two-frontends" if two else "")
        self.threaded = processor == "threaded_mailbox"
        self.spec = g.catalogue()[gname]
        self.sources = {n["name"]: dict(iv=IV, bounds=bounds) for n in self.spec if n["kind"] == "source"}
        self.ref = g.reference(self.spec, self.sources)
        self.target = g.final_target(self.spec)
        self.types = g.all_types(self.spec)

    def classes(self):
        attrs = {}
        for n in self.spec:
            a = {}
            if n["kind"] not in ("source",):
                a["rechunk_on_save"] = self.rechunk is not None
                if self.rechunk:
                    a["chunk_target_size_mb"] = g.target_size_rows(self.rechunk, g.provides_of(n)[0])
            if self.workers and n["kind"] in ("map",):
                a["parallel"] = "thread"
            if self.inline:
                a["parallel"] = "process"
                a["rechunk_on_save"] = False
            attrs[n["name"]] = a
        world = g.World(self.spec, self.sources)
        return g.make_classes(self.spec, world, attrs)

    def build(self, d, controlled=True):
        cl = self.classes()
        opts = dict(g.CTX_DEFAULTS)
        opts.update(allow_rechunk=self.rechunk is not None, allow_multiprocess=self.inline)
        import shutil as _sh

        _sh.rmtree(d + "_b", ignore_errors=True)

        def ctx(only=None):
            dirs = [d] + ([d + "_b"] if self.two else [])
            if only is not None:
                dirs = [dirs[only]]
            return strax.Context(storage=[strax.DataDirectory(x) for x in dirs], register=cl, **opts)

        def action():
            st = ctx()
            kw = dict(processor=self.processor, max_workers=self.workers)
            if self.call == "make":
                f = lambda: st.make(RUN, self.target, progress_bar=False, **kw)
            else:
                f = lambda: st.get_array(RUN, self.target, progress_bar=False, **kw)
            return ctxrun.run_controlled(f, POLICY[self.policy]) if (self.threaded and controlled) else f()

        # a fault-free run stores every (ALWAYS-saved) type; a retry only has to deliver the target
        self.retry_should = [self.target]
        return ctx, action, list(self.types)


class SaverScenario(Scenario):
    """bare Saver.save_from of 3 chunks, serial or with a thread pool"""

    def __init__(self, pool, rechunk, policy="first"):
        self.pool, self.rechunk, self.policy = pool, rechunk, policy
        self.name = f"save_from:pool{int(pool)}:rc{rechunk}" + (":sched-last" if policy == "last" else "")
        self.threaded = pool
        self.types = ["dat"]
        self.dtype = ss.DT_END
        self.ref = {"dat": ss.mk_rows(IV, self.dtype, scale=600)}

    def build(self, d, controlled=True):
        lineage = {"dat": ("Plug", "0.0", {})}
        key = strax.DataKey(RUN, "dat", lineage)
        tmb = (self.rechunk * self.dtype.itemsize + 1) / 1e6 if self.rechunk else strax.DEFAULT_CHUNK_SIZE_MB

        class Dat(strax.Plugin):
            provides = "dat"
            depends_on = ()
            dtype = self.dtype
            data_kind = "kk"
            __version__ = "0.0"

            def compute(self):
                raise RuntimeError("the bare-saver scenario never computes")

        Dat.__name__ = "Plug"
        Dat.__qualname__ = "Plug"

        def ctx():
            return strax.Context(storage=[strax.DataDirectory(d)], register=[Dat], forbid_creation_of=("dat",), **g.CTX_DEFAULTS)

        def action():
            st = ctx()
            k = st.key_for(RUN, "dat")
            sf = st.storage[0]
            p = st.get_single_plugin(RUN, "dat")
            md = p.metadata(RUN, "dat")
            md["chunk_target_size_mb"] = tmb
            chunks = ss.mk_chunks(IV, (0, 2, 4, 7), self.dtype, data_type="dat", data_kind="kk", scale=600, target_size_mb=tmb)

            def f():
                if st.is_stored(RUN, "dat"):
                    return  # like Context.make: nothing to do when the data is there
                saver = sf.saver(k, md, saver_timeout=3600)
                ex = vsched.VExecutor(max_workers=2) if self.pool else None
                try:
                    saver.save_from(iter(chunks), rechunk=self.rechunk is not None, executor=ex)
                finally:
                    if ex:
                        ex.shutdown(wait=True)

            return ctxrun.run_controlled(f, POLICY[self.policy]) if (self.pool and controlled) else f()

        return ctx, action, ["dat"]


class CopyScenario(MakeScenario):
    def __init__(self, rechunk):
        super().__init__("chain2", (0, 2, 4, 7), None, "single_thread")
        self.name = f"copy_to_frontend:rc{rechunk}"
        self.copy_rechunk = rechunk

    def build(self, d, controlled=True):
        cl = self.classes()
        d1, d2 = os.path.join(d, "a"), os.path.join(d, "b")

        def ctx2():  # fresh context that only sees the copy target
            return strax.Context(storage=[strax.DataDirectory(d2)], register=cl, forbid_creation_of=tuple(self.types), **g.CTX_DEFAULTS)

        def action():
            st = strax.Context(storage=[strax.DataDirectory(d1, readonly=True), strax.DataDirectory(d2)], register=cl, **g.CTX_DEFAULTS)
            if st._is_stored_in_sf(RUN, "mp", st.storage[1]):
                return
            st.copy_to_frontend(RUN, "mp", target_frontend_id=1, target_compressor="zstd", rechunk=self.copy_rechunk, rechunk_to_mb=g.target_size_rows(2, "mp"))

        def prepare():
            st = strax.Context(storage=[strax.DataDirectory(d1)], register=cl, **g.CTX_DEFAULTS)
            st.make(RUN, "mp", progress_bar=False, processor="single_thread")

        self._prepare = prepare
        return ctx2, action, ["mp"]


def scenarios(tier):
    b3 = (0, 2, 4, 7)
    b2 = (0, 4, 7)
    S = [
        MakeScenario("chain2", b3, None, "single_thread"),
        MakeScenario("chain2", b3, 2, "single_thread"),
        MakeScenario("multi_used", b2, None, "single_thread"),
        MakeScenario("chain2", b2, None, "threaded_mailbox"),
        SaverScenario(False, None),
        SaverScenario(True, None),
        CopyScenario(True),
        MakeScenario("chain2", b2, None, "single_thread", prebroken=True),
    ]
    if True:
        S += [
            MakeScenario("chain2", b3, 2, "threaded_mailbox", workers=2),
            MakeScenario("multi_used", b3, 1, "threaded_mailbox"),
            MakeScenario("chain2", b3, None, "single_thread", call="get_array"),
            SaverScenario(True, 1),
            CopyScenario(False),
            MakeScenario("diamond", b2, None, "single_thread"),
            MakeScenario("chain2", b3, None, "threaded_mailbox", workers=2, inline=True),
            MakeScenario("chain3", b3, None, "threaded_mailbox", workers=2, inline=True),
            # the same threaded / pool histories under a second deterministic schedule: always switch to the
            # most recently enabled thread (workers run ahead of the thread that submitted them)
            SaverScenario(True, None, policy="last"),
            SaverScenario(True, 1, policy="last"),
            MakeScenario("chain2", b3, 2, "threaded_mailbox", workers=2, policy="last"),
            MakeScenario("chain2", b2, None, "threaded_mailbox", policy="last"),
            # two writable frontends: the failure of EITHER frontend's saver must reach the caller
            MakeScenario("chain2", b2, None, "threaded_mailbox", two=True),
            MakeScenario("chain2", b2, None, "single_thread", two=True),
        ]
    return S


def verify(res, sc, ctx, should, case, phase, require_all):
    """post-condition from a fresh context.  Returns True if everything in `should` is stored+valid."""
    fsfault.ST.reset()
    all_ok = True
    try:
        st = ctx()
    except Exception as e:
        res.violation(f"{phase}:fresh-context:" + ctxrun.exc_fp(e), f"{e}"[:200], case)
        return False
    for t in sc.types:
        try:
            stored = st.is_stored(RUN, t)
        except Exception as e:
            res.violation(f"{phase}:is_stored:" + ctxrun.exc_fp(e), f"{t}: {type(e).__name__}: {e}"[:200], case)
            all_ok = False
            continue
        if not stored:
            if t in should:
                all_ok = False
                if require_all:
                    res.violation(f"{phase}:not-stored:{sc.name.split(':')[0]}", f"{t} is not stored after a successful request", case)
            continue
        try:
            st_l = ctx()
            st_l.set_context_config(dict(forbid_creation_of=tuple(sc.types)))
            got = st_l.get_array(RUN, t, progress_bar=False, processor="single_thread")
        except Exception as e:
            res.violation(f"{phase}:stored-but-unloadable:{sc.name.split(':')[0]}:{type(e).__name__}", f"{t} is reported stored but loading raised {type(e).__name__}: {e}"[:300], case)
            all_ok = False
            continue
        if not ctxrun.rows_equal(got, sc.ref[t]):
            res.violation(f"{phase}:stored-but-wrong:{sc.name.split(':')[0]}", f"{t} is reported stored but differs from the correct result ({len(got)} vs {len(sc.ref[t])} rows)", case)
            all_ok = False
    return all_ok


def run_fault(res, sc, si, fault, fault2=None, controlled=True, choices=None):
    """one faulted execution + verification + retry (+ optional second fault during the retry)"""
    case = dict(scenario=si, name=sc.name, fault=fault, fault2=fault2)
    if choices is not None:
        case["choices"] = choices
    d = ctxrun.fresh_dir("c04")
    ctx, action, should = sc.build(d, controlled=controlled)
    fsfault.ST.reset()
    if hasattr(sc, "_prepare"):
        sc._prepare()
    if getattr(sc, "prebroken", False):
        # leave broken data behind: die in the middle of a first attempt (fixed position)
        fsfault.ST.reset(("die", 12, "before"))
        try:
            action()
        except (fsfault.Died, Exception):
            pass
    fsfault.ST.reset(fault)
    exc = None
    try:
        action()
    except fsfault.Died as e:
        exc = e
    except ctxrun.Deadlock as e:
        # after process death (every later file operation raises Died, a BaseException that simply ends the thread it
        # hits) the surviving threads of our in-process simulation wait for ever: that is the dead process, not a hang
        if not (fault is not None and fault[0] == "die" and fsfault.ST.fired):
            res.violation(f"fault:deadlock:{sc.name.split(':')[0]}", f"{e}", case)
        exc = e
    except Exception as e:
        exc = e
    fired = fsfault.ST.fired
    nops = fsfault.ST.n
    if fault is not None and not fired:
        res.count("fault_not_reached")
    ok_all = verify(res, sc, ctx, should, case, "after-fault", require_all=(fault is None))
    if fault is not None and fired and fault[0] == "raise" and exc is None and not ok_all:
        res.violation(f"fault:failed-save-reported-as-success:{sc.name.split(':')[0]}", f"I/O error at op {fault[1]} but the caller saw no exception and not everything requested is stored", case)
    if getattr(sc, "two", False) and fault is not None and fired and fault[0] == "raise" and exc is None:
        # with two writable frontends the save to EACH of them is a save: if the caller saw no error, both must be complete
        fsfault.ST.reset()
        for k in (0, 1):
            stk = ctx(only=k)
            missing = [t for t in should if not stk.is_stored(RUN, t)]
            if missing:
                res.violation(f"fault:failed-save-reported-as-success:frontend{k}:{sc.name.split(':')[0]}", f"I/O error at op {fault[1]}: the caller saw no exception but frontend {k} does not hold {missing}", case)
                break
    if fault is None and exc is not None:
        res.violation("nofault:" + ctxrun.exc_fp(exc), f"fault-free run raised {exc!r}"[:300], case)
    # ---- retry (identical request, no manual cleanup)
    fsfault.ST.reset(fault2)
    exc2 = None
    try:
        action()
    except fsfault.Died as e:
        exc2 = e
    except Exception as e:
        exc2 = e
    if fault2 is None:
        if exc2 is not None:
            res.violation(f"retry:raised:{sc.name.split(':')[0]}:" + ctxrun.exc_fp(exc2), f"identical retry after the fault raised {type(exc2).__name__}: {exc2}"[:300], case)
        verify(res, sc, ctx, getattr(sc, "retry_should", should) if fault is not None else should, case, "after-retry", require_all=exc2 is None)
    else:
        verify(res, sc, ctx, should, case, "after-fault2", require_all=False)
        fsfault.ST.reset()
        try:
            action()
            verify(res, sc, ctx, getattr(sc, "retry_should", should), case, "after-retry2", require_all=True)
        except Exception as e:
            res.violation(f"retry2:raised:{sc.name.split(':')[0]}:" + ctxrun.exc_fp(e), f"second retry raised {type(e).__name__}: {e}"[:300], case)
    return nops


def op_log(sc):
    d = ctxrun.fresh_dir("c04")
    ctx, action, should = sc.build(d)
    fsfault.ST.reset()
    if hasattr(sc, "_prepare"):
        sc._prepare()
    if getattr(sc, "prebroken", False):
        fsfault.ST.reset(("die", 12, "before"))
        try:
            action()
        except (fsfault.Died, Exception):
            pass
    fsfault.ST.reset()
    action()
    return list(fsfault.ST.log)


class FaultSched(explore.Harness):
    """one fault at operation k (by kind and per-target ordinal, so that it means the same thing in every schedule)
    x every schedule with <=1 delay of the threaded / pool scenario"""

    def __init__(self, sc, si, fault):
        self.sc, self.si, self.fault = sc, si, fault
        self.r = Result()

    def main(self):
        run_fault(self.r, self.sc, self.si, self.fault, controlled=False)

    def final(self, s):
        if self.r.violations:
            v = self.r.violations[0]
            return v["fingerprint"], v["fingerprint"] + " :: " + v["what"]
        return "ok", None


# ---------------------------------------------------------------------------------------------------------------
# "an exception in any plugin or saver": the fault is an exception raised by a plugin's compute, by a chunk write
# (strax.save_file), by a chunk read, or the consumer abandoning the iterator - at every (stage, chunk) position of
# C06's cell catalogue - instead of a failing file-system operation.  Threaded cells are explored over schedules
# (delay-bounded); the oracle is the storage post-condition only (what the caller sees is C06's business).
def pipe_cells():
    from vlib.checks import c06

    return [c for c in c06.cells() if c[3] is not None or c[4][0] == "close"]


def _pipe_harness(pc):
    from vlib.checks import c06

    class HS(c06.H):
        def final(self, s):
            key, _ = super().final(s)
            if s.deadlock or self.obs["live_at_return"]:
                return key, None  # files may still be in flux; hangs are C06's property
            v = self.storage_verdict()
            return key + (self.obs.get("stored_after"),), v

    return HS(pc)


def run_pipe_job(job):
    from vlib import pipe
    from vlib.checks import c06

    _, i, bound, processor = job
    res = Result()
    cell = pipe_cells()[i]
    pc = c06.mk_case(cell, processor)
    with warnings.catch_warnings():
        warnings.simplefilter("ignore")
        r = explore.explore(lambda: _pipe_harness(pc), regime="delay", bound=bound, hashing=False, max_execs=20000)
    res.evals += r.executions
    res.count("pipe_fault_cells")
    res.count("pipe_fault_executions", r.executions)
    res.nt("pipe", i, processor, bound)
    res.add_set("pipe_storage_outcomes", tuple(sorted(map(repr, r.outcomes)))[:4])
    if r.cap_hit:
        res.caps_hit.append(f"pipe cell {i}: {r.cap_hit}")
    for k, msg, choices in r.violations[:3]:
        if not msg.startswith("STORAGE"):
            continue
        what = msg.split(":")[0].replace("STORAGE ", "")
        res.violation(f"pipe:{what}:{processor}:{c06.stage(cell)}", f"{cell} [{processor}, delay bound {bound}]: {msg}"[:400], dict(pipe_cell=pc.key(), choices=choices))
    return res


def plan(tier, seed):
    S = scenarios(tier)
    jobs = []
    PC = pipe_cells()
    for i, cell in enumerate(PC):
        if cell[2] == "eager":
            jobs.append(("pipe", i, 0, "single_thread"))
        b = 1 if (tier == "thorough" or (i + seed) % 3 == 0) else 0
        jobs.append(("pipe", i, b, "threaded_mailbox"))
    if tier == "thorough":
        for si, sc in enumerate(S):
            if sc.threaded and not getattr(sc, "inline", False):
                for sh in range(4):
                    jobs.append(("sched", si, sh, 4, tier, seed))
    for si, sc in enumerate(S):
        nsh = 4 if tier == "quick" else 8
        for sh in range(nsh):
            jobs.append(("single", si, sh, nsh, tier, seed))
        if tier == "thorough":
            for sh in range(8):
                jobs.append(("double", si, sh, 8, tier, seed))
    return jobs


def worker_init():
    from vlib import pipe

    pipe.install()
    vsched.install()
    fsfault.install()
    g.quiet()
    import strax.storage.files as F

    F.print = lambda *a, **k: None


def run_job(job):
    if job[0] == "pipe":
        fsfault.ST.reset()
        return run_pipe_job(job)
    kind, si, sh, nsh, tier, seed = job
    res = Result()
    sc = scenarios(tier)[si]
    if kind == "sched":
        with warnings.catch_warnings():
            warnings.simplefilter("ignore")
            log = op_log(sc)
            for k, opkind, path in log:
                if k % nsh != sh or opkind not in ("write", "rename"):
                    continue
                flt = ("raise", k, "plain")
                r = explore.explore(lambda: FaultSched(sc, si, flt), regime="delay", bound=1, hashing=False, max_execs=3000)
                res.evals += r.executions
                res.count("sched_fault_executions", r.executions)
                res.nt("sched", sc.name, k)
                if r.cap_hit:
                    res.caps_hit.append(f"{sc.name} k={k}: {r.cap_hit}")
                for kk, msg, choices in r.violations[:2]:
                    res.violation("sched:" + msg.split(" :: ")[0], f"[{len(choices)} scheduling choices] " + msg[:300], dict(scenario=si, name=sc.name, fault=flt, fault2=None, choices=choices))
        fsfault.ST.reset()
        return res
    with warnings.catch_warnings():
        warnings.simplefilter("ignore")
        log = op_log(sc)
        N = len(log)
        res.mx("ops_in_history", N)
        if sh == 0:
            run_fault(res, sc, si, None)
            res.evals += 1
            res.sample(dict(scenario=sc.name, operations=[f"{k}:{kind_}:{p}" for k, kind_, p in log][:60]), cap=1)
        for k, opkind, path in log:
            if k % nsh != sh:
                continue
            for mode, variant in variants_for(opkind):
                if kind == "single":
                    res.evals += 1
                    res.nt(sc.name, k, mode, variant)
                    res.add_set("op_kinds_faulted", opkind)
                    run_fault(res, sc, si, (mode, k, variant))
                else:
                    # second fault during the retry: every k2 for a rotating slice of first faults
                    if (k + seed) % 5 != 0 or variant not in ("plain", "before"):
                        continue
                    for k2, opkind2, _ in log:
                        if k2 % 3 != (k // 5) % 3:
                            continue
                        for mode2, variant2 in (("raise", "plain"), ("die", "before")):
                            res.evals += 1
                            res.nt(sc.name, k, mode, variant, k2, mode2)
                            run_fault(res, sc, si, (mode, k, variant), (mode2, k2, variant2))
    fsfault.ST.reset()
    res.count("faults_" + sc.name.split(":")[0], res.evals)
    return res


def replay(case):
    worker_init()
    res = Result()
    if case.get("pipe_cell") is not None:
        from vlib import pipe

        pc = pipe.PipeCase.from_key(case["pipe_cell"])
        out = []
        for _ in range(2):
            h, s_, info = explore.replay(lambda: _pipe_harness(pc), case["choices"])
            out.append(h.final(s_)[1])
        if out[0] != out[1]:
            raise vsched.HarnessError(f"replay not deterministic: {out}")
        return [dict(fingerprint="pipe:replay", what=out[0])] if out[0] else []
    tier = "thorough"
    sc = scenarios(tier)[case["scenario"]]
    assert sc.name == case["name"], (sc.name, case["name"])
    f = tuple(case["fault"]) if case["fault"] else None
    f2 = tuple(case["fault2"]) if case.get("fault2") else None
    if case.get("choices") is not None:
        h, s_, info = explore.replay(lambda: FaultSched(sc, case["scenario"], f), case["choices"])
        k, v = h.final(s_)
        fsfault.ST.reset()
        return [dict(fingerprint="sched:" + str(k), what=v)] if v else []
    with warnings.catch_warnings():
        warnings.simplefilter("ignore")
        run_fault(res, sc, case["scenario"], f, f2)
    fsfault.ST.reset()
    return res.violations


def sanity(total, tier):
    if total.counters.get("pipe_fault_cells", 0) < 30:
        return "fewer than 30 plugin / saver / loader / abandon fault cells"
    if len(total.sets.get("op_kinds_faulted", ())) < 4:
        return f"only op kinds {sorted(total.sets.get('op_kinds_faulted', ()))} were faulted"
    if total.maxes.get("ops_in_history", 0) < 20:
        return "histories shorter than 20 operations"
