"""File-system operation interposer for strax.storage.files and strax.io.

Every *mutating* operation (makedirs of a new dir, create/truncate, each write, rename, remove,
rmtree) is logged with a sequence number.  A Fault makes operation k fail:
  ('raise', k, variant)  OSError(ENOSPC) instead of the operation (variant 'half': for writes, half
                         of the bytes are written first)
  ('die', k, variant)    process death: operation k and every later operation raises
                         Died(BaseException) and does not happen.  variant: 'before' (k does not
                         happen), 'after' (k happens, everything after does not), 'torn' (writes:
                         half the bytes reach the disk)
No loss/reordering of completed operations is modelled (process death, not power failure)."""
import builtins, errno, os, shutil, types


class Died(BaseException):
    pass


class State:
    def __init__(self):
        self.reset()

    def reset(self, fault=None):
        self.n = 0
        self.log = []
        self.fault = fault
        self.dead = False
        self.fired = False
        self.point = None  # optional callback before each op (scheduler hook)


ST = State()


def _op(kind, path, do, data=None):
    """run mutating operation `do` under the current fault; returns its value"""
    s = ST
    if s.point is not None:
        s.point(kind, path)
    if s.dead:
        raise Died(f"process is dead; {kind} {path} did not happen")
    k = s.n
    s.n += 1
    s.log.append((k, kind, os.path.basename(str(path))))
    f = s.fault
    if f is not None and f[1] == k and not s.fired:
        s.fired = True
        mode, _, variant = f
        if mode == "raise":
            if variant == "half" and kind == "write":
                do(data[: len(data) // 2])
            raise OSError(errno.ENOSPC, f"injected ENOSPC at op {k} ({kind} {os.path.basename(str(path))})")
        if mode == "die":
            s.dead = True
            if variant == "after":
                do(data) if kind == "write" else do()
            elif variant == "torn" and kind == "write":
                do(data[: len(data) // 2])
            raise Died(f"process died at op {k} ({kind} {path}, {variant})")
    return do(data) if kind == "write" else do()


class _WFile:
    def __init__(self, f, path):
        self._f = f
        self._path = path

    def write(self, data):
        return _op("write", self._path, lambda d: self._f.write(d), data)

    def __enter__(self):
        return self

    def __exit__(self, *a):
        self._f.close()
        return False

    def __getattr__(self, k):
        return getattr(self._f, k)


def v_open(path, mode="r", *a, **kw):
    if any(c in mode for c in "wax+"):
        f = _op("create", path, lambda: builtins.open(path, mode, *a, **kw))
        return _WFile(f, path)
    return builtins.open(path, mode, *a, **kw)


class _OsShim:
    path = os.path

    def __getattr__(self, k):
        return getattr(os, k)

    def makedirs(self, p, mode=0o777, exist_ok=False):
        if os.path.isdir(p) and exist_ok:
            return None
        return _op("makedirs", p, lambda: os.makedirs(p, mode, exist_ok))

    def rename(self, a, b):
        return _op("rename", f"{os.path.basename(a)}->{os.path.basename(b)}", lambda: os.rename(a, b))

    def remove(self, p):
        return _op("remove", p, lambda: os.remove(p))


class _ShutilShim:
    def __getattr__(self, k):
        return getattr(shutil, k)

    def rmtree(self, p, *a, **kw):
        return _op("rmtree", p, lambda: shutil.rmtree(p, *a, **kw))


def install():
    import strax.storage.files as F, strax.io as IO

    F.os = _OsShim()
    F.shutil = _ShutilShim()
    F.open = v_open
    IO.os = _OsShim()
    IO.open = v_open


def uninstall():
    import strax.storage.files as F, strax.io as IO

    F.os = os
    F.shutil = shutil
    IO.os = os
    for m in (F, IO):
        if "open" in m.__dict__:
            del m.__dict__["open"]
