"""Controlled scheduler for real threads + drop-in `threading` / `concurrent.futures` namespaces.

Every virtual thread is a real OS thread, but exactly one runs at any time; control changes hands
only at scheduling points (lock acquire, condition wait, thread start/join/exit, future wait,
executor submit, explicit `point()`).  The *chooser* callback decides who runs next, so an explorer
can enumerate schedules.  Blocking is modelled with predicates: a thread parked with pred() False is
disabled; "no enabled thread while some thread is unfinished" is a deadlock (or quiescence, if the
harness says so)."""
import _thread, os, sys, types, threading as _rt
import concurrent.futures as _cf
from concurrent.futures import Future as _Future


class Abort(BaseException):
    """Raised inside virtual threads to unwind them when an execution is torn down."""


class HarnessError(Exception):
    pass


class VT:
    __slots__ = ("s", "target", "args", "kwargs", "name", "sem", "pred", "done", "exc", "real", "started", "idx", "waiting_on", "daemon", "ident")

    def __init__(self, sched, target, args, kwargs, name):
        self.s = sched
        self.target = target
        self.args = args
        self.kwargs = kwargs or {}
        self.name = name
        self.sem = _thread.allocate_lock()
        self.sem.acquire()
        self.pred = None
        self.done = False
        self.exc = None
        self.real = None
        self.started = False
        self.idx = None
        self.waiting_on = None
        self.ident = None

    def enabled(self):
        return self.started and not self.done and (self.pred is None or self.pred())

    def _run(self):
        self.sem.acquire()
        try:
            if self.s.aborting:
                raise Abort()
            if self.s.tracer is not None:
                sys.settrace(self.s.tracer)
            self.target(*self.args, **self.kwargs)
        except Abort:
            pass
        except BaseException as e:  # noqa
            self.exc = e
            self.s.uncaught.append((self.name, e))
        finally:
            sys.settrace(None)
            self.done = True
            self.s._thread_exit(self)

    def __repr__(self):
        return f"<VT {self.idx} {self.name}>"


class Sched:
    """chooser(sched, enabled_list, current_is_enabled) -> index into enabled_list.
    enabled_list is canonical: the running thread first if still enabled, then ascending idx."""

    def __init__(self, chooser, quiescence_ok=False, tracer=None, max_points=200000):
        self.threads = []
        self.cur = None
        self.chooser = chooser
        self.aborting = False
        self.done_evt = _rt.Event()
        self.deadlock = False
        self.quiescent = False
        self.quiescence_ok = quiescence_ok
        self.npoints = 0
        self.uncaught = []
        self.tracer = tracer
        self.max_points = max_points
        self.livelock = False
        self.stopped = False
        self.on_point = None  # optional callback(sched) at every scheduling decision (invariants)

    # ---- thread management
    def spawn(self, target, args=(), kwargs=None, name=None):
        t = VT(self, target, args, kwargs, name or f"t{len(self.threads)}")
        t.idx = len(self.threads)
        self.threads.append(t)
        return t

    def _start_real(self, t):
        t.started = True
        t.real = _POOL.run(t._run)
        t.ident = t.real.ident

    def run(self, main, name="main", timeout=int(os.environ.get("VERIF_HANG_TIMEOUT", "600"))):
        t = self.spawn(main, name=name)
        self._start_real(t)
        self.cur = t
        t.sem.release()
        if not self.done_evt.wait(timeout):
            import faulthandler

            faulthandler.dump_traceback(file=sys.stderr)
            raise HarnessError("real hang: execution did not finish within %ss (a blocking call is not virtualised?)" % timeout)
        for t in self.threads:
            if t.real is not None and not t.real.idle.wait(10):
                raise HarnessError(f"thread {t.name} did not unwind")

    def me(self):
        return self.cur

    # ---- scheduling points
    def point(self, pred=None, waiting_on=None):
        me = self.cur
        if me is None or _thread.get_ident() != me.ident:
            # called from a thread the scheduler does not own (should not happen)
            raise HarnessError("scheduling point reached from a foreign thread")
        if self.aborting:
            raise Abort()
        me.pred = pred
        me.waiting_on = waiting_on
        self._dispatch(me)
        me.pred = None
        me.waiting_on = None
        if self.aborting:
            raise Abort()

    def _dispatch(self, me):
        en = [t for t in self.threads if t.enabled()]
        if self.on_point is not None:
            self.on_point(self)
        if not en:
            if all(t.done or not t.started for t in self.threads):
                self.done_evt.set()
                return
            if self.quiescence_ok:
                self.quiescent = True
            else:
                self.deadlock = True
            self._begin_abort(me)
            return
        cur_en = me in en
        if cur_en:
            en = [me] + [t for t in en if t is not me]
        self.npoints += 1
        if self.npoints > self.max_points:
            self.livelock = True
            self._begin_abort(me)
            return
        i = self.chooser(self, en, cur_en)
        if i is None:  # explorer asks to stop this execution here
            self.stopped = True
            self._begin_abort(me)
            return
        nxt = en[i]
        if nxt is me:
            return
        self.cur = nxt
        nxt.sem.release()
        if not me.done:
            me.sem.acquire()

    # ---- teardown: unwind threads one at a time so clean-up code never runs concurrently
    def _begin_abort(self, me):
        self.aborting = True
        if me.done:
            self._abort_next()
        # else: `me` continues and raises Abort from point(); its exit triggers the next

    def _abort_next(self):
        for t in self.threads:
            if t.started and not t.done:
                self.cur = t
                t.sem.release()
                return
        self.done_evt.set()

    def _thread_exit(self, t):
        if self.aborting:
            self._abort_next()
            return
        self._dispatch(t)


class _PoolThread:
    """A persistent OS thread that runs one virtual-thread body after another (saves a clone()
    per virtual thread per execution)."""

    def __init__(self, pool):
        self.pool = pool
        self.go = _thread.allocate_lock()
        self.go.acquire()
        self.fn = None
        self.idle = _rt.Event()
        self.real = _rt.Thread(target=self._loop, daemon=True, name="vpool")
        self.real.start()
        self.ident = self.real.ident

    def _loop(self):
        while True:
            self.go.acquire()
            fn, self.fn = self.fn, None
            try:
                fn()
            finally:
                with self.pool.lock:
                    self.pool.free.append(self)
                self.idle.set()


class _Pool:
    def __init__(self):
        self.lock = _rt.Lock()
        self.free = []
        self.pid = None

    def run(self, fn):
        import os

        if self.pid != os.getpid():  # forked: the parent's OS threads do not exist here
            self.pid = os.getpid()
            self.free = []
            self.lock = _rt.Lock()
        with self.lock:
            pt = self.free.pop() if self.free else None
        if pt is None:
            pt = _PoolThread(self)
        pt.idle.clear()
        pt.fn = fn
        pt.go.release()
        return pt


_POOL = _Pool()

SCHED = None  # the scheduler of the execution in progress (one per process at a time)


def S():
    if SCHED is None:
        raise HarnessError("virtual threading primitive used outside a controlled execution")
    return SCHED


# ---------------------------------------------------------------- threading namespace
class Thread:
    def __init__(self, group=None, target=None, name=None, args=(), kwargs=None, daemon=None):
        self._vt = S().spawn(target if target is not None else self.run, args, kwargs, name)
        self.name = self._vt.name
        self.daemon = daemon

    def run(self):
        pass

    def start(self):
        S()._start_real(self._vt)
        S().point(waiting_on=("start", self._vt.idx))

    def join(self, timeout=None):
        vt = self._vt
        if vt.started and not vt.done:
            S().point(lambda: vt.done, waiting_on=("join", vt.idx))

    def is_alive(self):
        return self._vt.started and not self._vt.done

    @property
    def ident(self):
        return self._vt.ident


class RLock:
    def __init__(self):
        self.owner = None
        self.count = 0

    def acquire(self, blocking=True, timeout=-1):
        s = S()
        me = s.me()
        if self.owner is me:
            self.count += 1
            return True
        if not blocking:
            if self.owner is None:
                self.owner = me
                self.count = 1
                return True
            return False
        s.point(lambda: self.owner is None, waiting_on=("lock", self))
        self.owner = me
        self.count = 1
        return True

    def release(self):
        if self.owner is not S().me():
            raise RuntimeError("cannot release un-acquired lock")
        self.count -= 1
        if self.count == 0:
            self.owner = None

    __enter__ = acquire

    def __exit__(self, *a):
        # during teardown the owner bookkeeping may belong to an aborted thread
        if S().aborting:
            if self.owner is S().me():
                self.count -= 1
                if self.count <= 0:
                    self.owner = None
                    self.count = 0
            return
        self.release()

    def _is_owned(self):
        return self.owner is S().me()

    def _release_save(self):
        c = self.count
        self.count = 0
        self.owner = None
        return c

    def _acquire_restore(self, c):
        self.owner = S().me()
        self.count = c

    def locked(self):
        return self.owner is not None

    def __repr__(self):
        return f"<vRLock owner={self.owner.idx if self.owner else None} count={self.count}>"


class Lock(RLock):
    def acquire(self, blocking=True, timeout=-1):
        s = S()
        me = s.me()
        if self.owner is me and blocking:
            # self-deadlock on a non-reentrant lock
            s.point(lambda: False, waiting_on=("lock", self))
        return RLock.acquire(self, blocking, timeout)

    def release(self):
        self.count = 0
        self.owner = None

    __enter__ = acquire


class Condition:
    def __init__(self, lock=None):
        self._lock = lock if lock is not None else RLock()
        self.waiters = []
        self.acquire = self._lock.acquire
        self.release = self._lock.release

    def __enter__(self):
        return self._lock.__enter__()

    def __exit__(self, *a):
        return self._lock.__exit__(*a)

    def wait(self, timeout=None):
        s = S()
        me = s.me()
        if self._lock.owner is not me:
            raise RuntimeError("cannot wait on un-acquired lock")
        c = self._lock._release_save()
        self.waiters.append(me)
        try:
            s.point(lambda: me not in self.waiters and self._lock.owner is None, waiting_on=("cond", self))
        except Abort:
            if me in self.waiters:
                self.waiters.remove(me)
            raise
        self._lock._acquire_restore(c)
        return True

    def wait_for(self, predicate, timeout=None):
        r = predicate()
        while not r:
            self.wait(timeout)
            r = predicate()
        return r

    def notify(self, n=1):
        del self.waiters[:n]

    def notify_all(self):
        self.waiters.clear()

    notifyAll = notify_all


class Event:
    def __init__(self):
        self._flag = False

    def is_set(self):
        return self._flag

    def set(self):
        self._flag = True

    def clear(self):
        self._flag = False

    def wait(self, timeout=None):
        if not self._flag:
            S().point(lambda: self._flag, waiting_on=("event", self))
        return True


class _CurThread:
    def __init__(self, vt):
        self.name = vt.name
        self.ident = vt.ident
        self._vt = vt


def current_thread():
    return _CurThread(S().me())


def get_ident():
    return S().me().ident


vthreading = types.SimpleNamespace(
    Thread=Thread, RLock=RLock, Lock=Lock, Condition=Condition, Event=Event, current_thread=current_thread, get_ident=get_ident,
    main_thread=_rt.main_thread, local=_rt.local,
)


# ---------------------------------------------------------------- futures namespace
class VFuture(_Future):
    """A real concurrent.futures.Future (so isinstance checks in strax hold) whose blocking
    `result` goes through the scheduler."""

    def result(self, timeout=None):
        if not self.done():
            S().point(lambda: self.done(), waiting_on=("future", self))
        return _Future.result(self, timeout=0)

    def exception(self, timeout=None):
        if not self.done():
            S().point(lambda: self.done(), waiting_on=("future", self))
        return _Future.exception(self, timeout=0)


class VExecutor:
    """ThreadPoolExecutor look-alike: every task runs on a scheduler-controlled worker thread;
    at most max_workers run at once, the rest queue FIFO."""

    instances = []

    def __init__(self, max_workers=None, **kw):
        self.max_workers = max_workers or 4
        self.queue = []
        self.active = 0
        self._shutdown = False
        self.nworkers = 0
        VExecutor.instances.append(self)

    def submit(self, fn, *args, **kwargs):
        if self._shutdown:
            raise RuntimeError("cannot schedule new futures after shutdown")
        f = VFuture()
        self.queue.append((f, fn, args, kwargs))
        if self.active < self.max_workers:
            self.active += 1
            self.nworkers += 1
            t = Thread(target=self._worker, name=f"pool-{id(self) % 997}-w{self.nworkers}")
            t.start()  # scheduling point
        else:
            S().point(waiting_on=("submit", None))
        return f

    def _worker(self):
        try:
            while self.queue:
                f, fn, args, kwargs = self.queue.pop(0)
                if not f.set_running_or_notify_cancel():
                    continue
                try:
                    r = fn(*args, **kwargs)
                except Abort:
                    raise
                except BaseException as e:  # noqa
                    f.set_exception(e)
                else:
                    f.set_result(r)
                S().point(waiting_on=("task-done", None))
        finally:
            self.active -= 1

    def shutdown(self, wait=True, cancel_futures=False):
        self._shutdown = True
        if wait and (self.active or self.queue):
            S().point(lambda: self.active == 0 and not self.queue, waiting_on=("shutdown", self))

    def __enter__(self):
        return self

    def __exit__(self, *a):
        self.shutdown(wait=True)
        return False

    def map(self, fn, *iterables, timeout=None, chunksize=1):
        fs = [self.submit(fn, *a) for a in zip(*iterables)]

        def gen():
            for f in fs:
                yield f.result()

        return gen()


class VProcessExecutor(VExecutor):
    """Stand-in for ProcessPoolExecutor: tasks run on controlled threads of this process, but - as with real worker
    processes - on a private deep copy of the callable (bound plugin incl. its inlined savers) and arguments; results
    are copied back.  (Pickling of dynamically created harness classes is not possible, deepcopy has the same effect.)"""

    def submit(self, fn, *args, **kwargs):
        import copy

        fn2, args2, kwargs2 = copy.deepcopy((fn, args, kwargs))

        def task():
            return copy.deepcopy(fn2(*args2, **kwargs2))

        return VExecutor.submit(self, task)


FIRST_COMPLETED = _cf.FIRST_COMPLETED
FIRST_EXCEPTION = _cf.FIRST_EXCEPTION
ALL_COMPLETED = _cf.ALL_COMPLETED


def vwait(fs, timeout=None, return_when=ALL_COMPLETED):
    fs = list(fs)

    def ready():
        d = [f for f in fs if f.done()]
        if return_when == FIRST_COMPLETED:
            return len(d) > 0
        if return_when == FIRST_EXCEPTION:
            return len(d) == len(fs) or any(f.exception(0) is not None for f in d if not f.cancelled())
        return len(d) == len(fs)

    if fs and not ready():
        S().point(ready, waiting_on=("wait", None))
    done = {f for f in fs if f.done()}
    return _cf._base.DoneAndNotDoneFutures(done, set(fs) - done)


vfutures = types.SimpleNamespace(
    ThreadPoolExecutor=VExecutor, ProcessPoolExecutor=VProcessExecutor, Future=_Future, wait=vwait, FIRST_COMPLETED=FIRST_COMPLETED,
    FIRST_EXCEPTION=FIRST_EXCEPTION, ALL_COMPLETED=ALL_COMPLETED, TimeoutError=_cf.TimeoutError, as_completed=None,
)


def install():
    """Point strax's modules at the virtual primitives (module-attribute substitution; /repo untouched)."""
    import strax.mailbox, strax.utils, strax.storage.common, strax.processors.threaded_mailbox as tm
    import strax.storage.file_rechunker as fr

    strax.mailbox.threading = vthreading
    tm.futures = vfutures
    tm.ProcessPoolExecutor = VProcessExecutor
    strax.utils.ThreadPoolExecutor = VExecutor
    strax.utils.wait = vwait
    strax.storage.common.wait = vwait
    fr.ThreadPoolExecutor = VExecutor


def uninstall():
    import threading, concurrent.futures as cf
    import strax.mailbox, strax.utils, strax.storage.common, strax.processors.threaded_mailbox as tm
    import strax.storage.file_rechunker as fr

    strax.mailbox.threading = threading
    tm.futures = cf
    tm.ProcessPoolExecutor = cf.ProcessPoolExecutor
    strax.utils.ThreadPoolExecutor = cf.ThreadPoolExecutor
    strax.utils.wait = cf.wait
    strax.storage.common.wait = cf.wait
    fr.ThreadPoolExecutor = cf.ThreadPoolExecutor


# ---------------------------------------------------------------- file operations as scheduling points
class _IoOsPoints:
    """stand-in for the `os` module inside strax.io: rename is a scheduling point (a pool worker writing a chunk can be
    overtaken between creating the temporary file and renaming it)"""

    def __getattr__(self, n):
        import os as _os

        return getattr(_os, n)

    def rename(self, a, b):
        import os as _os

        fs_point("rename")
        return _os.rename(a, b)


def fs_point(what):
    s = SCHED
    if s is not None and not s.aborting and s.cur is not None:
        s.point(waiting_on=("fs", what))


def install_fs_points():
    """make strax.io's open() and os.rename() scheduling points (used by checks that explore pool writers)"""
    import builtins
    import strax.io as sio

    def v_open(*a, **k):
        fs_point("open")
        return builtins.open(*a, **k)

    sio.open = v_open
    sio.os = _IoOsPoints()
