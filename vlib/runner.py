"""Runner: distributes a check's jobs over a fork pool, merges results, applies the
known-findings file, writes evidence + replay files, prints VIOLATION / KNOWN-FINDING lines.

A check module (vlib.checks.cXX) exposes
    ID            "C07"
    LEVEL         "exploration" | "model_checking" | "fault_enumeration"
    RULE          str: how cases are enumerated / what counts as non-trivial
    ASSUMPTIONS   list[str]
    def plan(tier, seed) -> list[job]         (job: small picklable object)
    def run_job(job) -> Result                (see class Result)
    def replay(case) -> list[violation dict]  (re-run ONE recorded case without the explorer)
"""
import json, os, sys, time, hashlib, traceback, signal, shutil
from vlib import env  # noqa: F401  (must precede any strax / numba import)
import multiprocessing as mp

VERIF = os.path.dirname(os.path.dirname(os.path.abspath(__file__)))
_base = "/dev/shm" if os.access("/dev/shm", os.W_OK) else os.path.join(VERIF, ".scratch")
SCRATCH = os.environ.get("VERIF_SCRATCH") or os.path.join(_base, f"strax_verif_{os.getpid()}")
os.environ["VERIF_SCRATCH"] = SCRATCH
NPROC = int(os.environ.get("VERIF_NPROC", "16"))


class Result:
    """Mergeable result of a job."""

    def __init__(self):
        self.evals = 0
        self.nontrivial = set()  # hashes (ints) of distinct non-trivial cases
        self.violations = []  # dicts: fingerprint, what, case (json-able, replayable)
        self.samples = []
        self.counters = {}  # summed
        self.sets = {}  # name -> set, unioned (e.g. distinct outcomes)
        self.maxes = {}
        self.harness_errors = []
        self.caps_hit = []

    def count(self, k, n=1):
        self.counters[k] = self.counters.get(k, 0) + n

    def mx(self, k, v):
        if v > self.maxes.get(k, -1):
            self.maxes[k] = v

    def add_set(self, k, v):
        self.sets.setdefault(k, set()).add(v)

    def nt(self, *key):
        self.nontrivial.add(hash8(key))

    def sample(self, s, cap=3):
        if len(self.samples) < cap:
            self.samples.append(s)

    def violation(self, fingerprint, what, case):
        # keep at most 5 violations per fingerprint per job
        n = sum(1 for v in self.violations if v["fingerprint"] == fingerprint)
        self.count("violations_raw")
        if n < 5:
            self.violations.append(dict(fingerprint=fingerprint, what=what, case=case))

    def merge(self, o):
        self.evals += o.evals
        self.nontrivial |= o.nontrivial
        self.violations += o.violations
        for s in o.samples:
            if len(self.samples) < 6:
                self.samples.append(s)
        for k, v in o.counters.items():
            self.counters[k] = self.counters.get(k, 0) + v
        for k, v in o.sets.items():
            self.sets.setdefault(k, set()).update(v)
        for k, v in o.maxes.items():
            self.mx(k, v)
        self.harness_errors += o.harness_errors
        self.caps_hit += o.caps_hit


def hash8(obj):
    return int.from_bytes(hashlib.blake2b(repr(obj).encode(), digest_size=8).digest(), "big")


def jsonable(o):
    import numpy as np

    if isinstance(o, dict):
        return {str(k): jsonable(v) for k, v in o.items()}
    if isinstance(o, (list, tuple, set, frozenset)):
        return [jsonable(x) for x in o]
    if isinstance(o, np.ndarray):
        return o.tolist()
    if isinstance(o, np.generic):
        return o.item()
    if isinstance(o, (str, int, float, bool)) or o is None:
        return o
    if isinstance(o, np.dtype):
        return str(o)
    return repr(o)


_MOD = None


def _worker_init(modname):
    global _MOD
    import importlib

    signal.signal(signal.SIGINT, signal.SIG_IGN)
    _MOD = importlib.import_module(modname)
    d = os.path.join(SCRATCH, str(os.getpid()))
    shutil.rmtree(d, ignore_errors=True)
    os.makedirs(d, exist_ok=True)
    os.environ["VERIF_WORKDIR"] = d
    if hasattr(_MOD, "worker_init"):
        _MOD.worker_init()


def _worker_run(job):
    t0 = time.time()
    try:
        if os.environ.get("VERIF_PROFILE") and os.getpid() % 16 == 0:
            import cProfile, pstats

            pr = cProfile.Profile()
            r = pr.runcall(_MOD.run_job, job)
            pstats.Stats(pr).sort_stats("cumulative").print_stats(45)
        else:
            r = _MOD.run_job(job)
        if os.environ.get("VERIF_TIMING"):
            print(f"JOBTIME {time.time()-t0:.1f}s {job!r:.150}", file=sys.stderr, flush=True)
    except BaseException as e:  # harness error, never a violation
        r = Result()
        r.harness_errors.append(f"job {job!r:.200}: {type(e).__name__}: {e}\n{traceback.format_exc()[-1500:]}")
    return r


def workdir():
    d = os.environ.get("VERIF_WORKDIR")
    if not d:
        d = os.path.join(SCRATCH, str(os.getpid()))
        os.makedirs(d, exist_ok=True)
        os.environ["VERIF_WORKDIR"] = d
    return d


def load_known():
    p = os.path.join(VERIF, "known_findings.json")
    with open(p) as f:
        d = json.load(f)
    assert isinstance(d.get("known"), list) and isinstance(d.get("fixed"), list)
    return d


def match_known(known, pid, fp):
    for k in known["known"]:
        if k["property"] != pid:
            continue
        if k.get("fingerprint") == fp:
            return k
        pre = k.get("fingerprint_prefix")
        if pre and fp.startswith(pre):
            return k
    return None


def run_check(mod, tier, seed, only=None):
    t0 = time.time()
    pid = mod.ID
    os.makedirs(SCRATCH, exist_ok=True)
    jobs = mod.plan(tier, seed)
    if only is not None:
        jobs = [j for i, j in enumerate(jobs) if i in only]
        os.environ.setdefault("VERIF_EVIDENCE_DIR", "/tmp/partial_evidence")  # a debugging run of some jobs is no evidence
    total = Result()
    nproc = min(NPROC, max(1, len(jobs)))
    try:
        from vlib import warm

        warm.warm()
    except Exception as e:  # warming is an optimisation only
        print(f"[{pid}] cache warm-up skipped: {type(e).__name__}: {e}", file=sys.stderr)
    if getattr(mod, "SERIAL", False) or nproc == 1 or os.environ.get("VERIF_SERIAL"):
        _worker_init(mod.__name__)
        for j in jobs:
            total.merge(_worker_run(j))
    else:
        ctx = mp.get_context(os.environ.get("VERIF_MP", "spawn"))
        maxtasks = getattr(mod, "MAXTASKS", None)
        with ctx.Pool(nproc, initializer=_worker_init, initargs=(mod.__name__,), maxtasksperchild=maxtasks) as pool:
            done = 0
            for r in pool.imap_unordered(_worker_run, jobs, chunksize=1):
                total.merge(r)
                done += 1
                if os.environ.get("VERIF_PROGRESS") and done % max(1, len(jobs) // 20) == 0:
                    print(f"[{pid}] {done}/{len(jobs)} jobs, {total.evals} evals, {time.time()-t0:.0f}s", file=sys.stderr, flush=True)
    shutil.rmtree(SCRATCH, ignore_errors=True)
    return finish(mod, tier, seed, total, time.time() - t0, njobs=len(jobs))


def finish(mod, tier, seed, total, wall, njobs):
    pid = mod.ID
    known = load_known()
    # --- vacuity / sanity post-conditions from the module (harness errors if they fail)
    if hasattr(mod, "sanity"):
        try:
            msg = mod.sanity(total, tier)
            if msg:
                total.harness_errors.append("sanity: " + msg)
        except Exception as e:
            total.harness_errors.append(f"sanity raised {type(e).__name__}: {e}")
    # --- violations: group by fingerprint
    byfp = {}
    for v in total.violations:
        byfp.setdefault(v["fingerprint"], []).append(v)
    new, knownhits = [], []
    rdir = os.path.join(os.environ.get("VERIF_REPLAY_DIR") or os.path.join(VERIF, "replays"), pid)  # env: tools/run_on.sh (parallel runs on scratch trees)
    shutil.rmtree(rdir, ignore_errors=True)  # replay files always belong to the latest run
    for fp, vs in sorted(byfp.items()):
        k = match_known(known, pid, fp)
        if k is not None:
            knownhits.append((k, fp, vs))
            continue
        os.makedirs(rdir, exist_ok=True)
        # smallest case first (shortest repr)
        vs.sort(key=lambda v: len(json.dumps(jsonable(v["case"]))))
        v = vs[0]
        name = hashlib.sha1(fp.encode()).hexdigest()[:12] + ".json"
        path = os.path.join(rdir, name)
        with open(path, "w") as f:
            json.dump(jsonable(dict(property=pid, fingerprint=fp, what=v["what"], case=v["case"], n_cases_this_run=len(vs))), f, indent=1)
        new.append((fp, v, path))
    seen_known = set()
    for k, fp, vs in knownhits:
        key = k.get("fingerprint") or k.get("fingerprint_prefix")
        if key in seen_known:
            continue
        seen_known.add(key)
        print(f"KNOWN-FINDING: property={pid} {k['what']} [fingerprint={key}; e.g. {json.dumps(jsonable(vs[0]['case']))[:160]}]")
    for fp, v, path in new:
        print(f"VIOLATION property={pid} replay={path}")
        print(f"  fingerprint: {fp}\n  what: {v['what']}"[:1500])
    # --- evidence
    cov = dict(
        evaluations=int(total.evals),
        distinct_nontrivial=len(total.nontrivial),
        rule=mod.RULE,
        samples=jsonable(total.samples) or ["<no sample recorded>"],
        exhaustive=not total.caps_hit,
        jobs=njobs,
        counters={k: int(v) for k, v in sorted(total.counters.items())},
        distinct={k: len(v) for k, v in sorted(total.sets.items())},
        maxima=total.maxes,
        caps_hit=total.caps_hit[:20],
        bounds=getattr(mod, "BOUNDS", {}).get(tier, ""),
        known_findings_hit=sorted(seen_known),
    )
    if mod.LEVEL == "model_checking":
        cov["states"] = int(total.counters.get("states", 0))
        cov["transitions"] = int(total.counters.get("transitions", 0))
        cov["traces_validated_against_impl"] = int(total.counters.get("executions", 0))
    ev = dict(
        property_id=pid,
        tier=tier,
        seed=int(seed),
        level=mod.LEVEL,
        coverage=cov,
        assumptions=list(mod.ASSUMPTIONS),
        wall_s=round(wall, 2),
        violations=len(new),
    )
    # (VERIF_EVIDENCE_DIR: used by tools/seeded_test.sh so that runs against a deliberately broken tree never touch the
    # committed evidence of the unchanged tree)
    evdir = os.environ.get("VERIF_EVIDENCE_DIR") or os.path.join(VERIF, "evidence")
    os.makedirs(evdir, exist_ok=True)
    evpath = os.path.join(evdir, f"{pid}.json")
    from vlib import schema

    err = schema.validate(ev, "/root/.vp/EVIDENCE.schema.json")
    if err:
        total.harness_errors.append(f"evidence does not validate: {err}"[:500])
    with open(evpath, "w") as f:
        json.dump(ev, f, indent=1)
    print(
        f"[{pid}] tier={tier} seed={seed} evals={total.evals} nontrivial={len(total.nontrivial)} "
        f"violations={len(new)} known={len(seen_known)} harness_errors={len(total.harness_errors)} "
        + " ".join(f"{k}={v}" for k, v in sorted(total.counters.items()))
        + f" wall={wall:.1f}s"
    )
    if total.harness_errors:
        for h in total.harness_errors[:5]:
            print("HARNESS-ERROR:", h, file=sys.stderr)
        if not new:
            return 2
    return 1 if new else 0


def do_replay(mod, path):
    with open(path) as f:
        d = json.load(f)
    _worker_init(mod.__name__)
    vs = mod.replay(d["case"])
    shutil.rmtree(SCRATCH, ignore_errors=True)
    if vs:
        for v in vs:
            print(f"VIOLATION property={mod.ID} replay={path}\n  fingerprint: {v['fingerprint']}\n  what: {v['what']}")
        return 1
    print(f"[{mod.ID}] replay of {path}: no violation")
    return 0
