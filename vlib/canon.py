"""Canonical (hashable) form of the global state of a controlled execution.

state = for every virtual thread: scheduler status + what it is blocked on + its Python stack
(code name, f_lasti, canonical locals), recursively expanding suspended generators, virtual
locks/conditions, mailboxes, chunks, numpy arrays and plain containers.  Aliasing is kept by
first-visit numbering.  Objects outside the whitelist are reduced to their type name."""
import sys, types, hashlib
import numpy as np
from vlib import vsched

_SKIP_FILES = ("vlib/vsched.py", "vlib/canon.py", "vlib/explore.py", "/threading.py")
_SKIP_ATTRS = {"log", "_threads", "timeout"}
EXPAND_MODULE_PREFIXES = ("strax", "vlib.checks", "vlib.graphs", "__main__")


_INSTR_STARTS = {}


def norm_lasti(code, lasti):
    """f_lasti may point into the inline-cache entries of a (specialised) instruction, depending
    on how warm the code object is; map it to the start of the instruction it belongs to."""
    import bisect, dis

    st = _INSTR_STARTS.get(code)
    if st is None:
        st = _INSTR_STARTS[code] = sorted(i.offset for i in dis.get_instructions(code))
    k = bisect.bisect_right(st, lasti) - 1
    return st[k] if k >= 0 else lasti


class Canon:
    def __init__(self, extra_expand=(), skip_attrs=()):
        self.memo = {}
        self.extra_expand = tuple(extra_expand)
        self.skip_attrs = _SKIP_ATTRS | set(skip_attrs)

    def c(self, o, depth=0):
        if o is None or isinstance(o, (bool, int, float, str, bytes)):
            return o
        if isinstance(o, (np.integer, np.floating, np.bool_)):
            return o.item()
        if isinstance(o, (types.FunctionType, types.BuiltinFunctionType, types.MethodType, types.ModuleType, type)):
            if isinstance(o, types.MethodType):
                return ("meth", o.__func__.__qualname__, self.c(o.__self__, depth + 1))
            return ("fn", getattr(o, "__qualname__", type(o).__name__))
        i = id(o)
        if i in self.memo:
            return ("ref", self.memo[i])
        self.memo[i] = len(self.memo)
        if depth > 40:
            return ("deep", type(o).__name__)
        c = self.c
        if isinstance(o, (list, tuple)):
            return (type(o).__name__,) + tuple(c(x, depth + 1) for x in o)
        if isinstance(o, dict):
            return ("dict", type(o).__name__) + tuple((c(k, depth + 1), c(v, depth + 1)) for k, v in o.items())
        if isinstance(o, (set, frozenset)):
            return ("set",) + tuple(sorted((c(x, depth + 1) for x in o), key=repr))
        if isinstance(o, types.GeneratorType):
            f = o.gi_frame
            if f is None:
                return ("gen", o.gi_code.co_name, "done")
            if o.gi_running:
                return ("gen", o.gi_code.co_name, "running")
            return ("gen", o.gi_code.co_name, norm_lasti(f.f_code, f.f_lasti), self.locals(f, depth + 1), c(o.gi_yieldfrom, depth + 1))
        if isinstance(o, types.FrameType):
            return ("frame", o.f_code.co_name, norm_lasti(o.f_code, o.f_lasti), self.locals(o, depth + 1))
        if isinstance(o, vsched.VT):
            return ("vt", o.idx, o.started, o.done)
        if isinstance(o, vsched.RLock):
            return ("lock", o.owner.idx if o.owner else None, o.count)
        if isinstance(o, vsched.Condition):
            return ("cond", tuple(w.idx for w in o.waiters), c(o._lock, depth + 1))
        if isinstance(o, vsched.Thread):
            return ("thread", o._vt.idx, o._vt.started, o._vt.done)
        if isinstance(o, vsched._CurThread):
            return ("curthread", o._vt.idx)
        if isinstance(o, vsched.Event):
            return ("event", o._flag)
        if isinstance(o, vsched.VFuture):
            if not o.done():
                return ("fut", "pending", o.running())
            e = o.exception(0) if not o.cancelled() else "cancelled"
            return ("fut", "done", c(e, depth + 1) if e is not None else c(vsched._Future.result(o, 0), depth + 1))
        if isinstance(o, vsched.VExecutor):
            return ("exec", o.max_workers, o.active, o._shutdown, tuple((c(f, depth + 1), c(fn, depth + 1), c(a, depth + 1)) for f, fn, a, k in o.queue))
        if isinstance(o, np.ndarray):
            return ("nd", o.shape, str(o.dtype), hashlib.sha1(o.tobytes()).hexdigest()[:12] if o.size else "")
        if isinstance(o, np.dtype):
            return ("dtype", str(o))
        if isinstance(o, BaseException):
            return ("exc", type(o).__name__, c(o.args, depth + 1))
        if isinstance(o, types.CellType):
            try:
                return ("cell", c(o.cell_contents, depth + 1))
            except ValueError:
                return ("cell",)
        if isinstance(o, types.TracebackType):
            return ("tb",)
        import functools

        if isinstance(o, functools.partial):
            return ("partial", c(o.func, depth + 1), c(o.args, depth + 1), c(o.keywords, depth + 1))
        mod = type(o).__module__ or ""
        if mod.startswith(EXPAND_MODULE_PREFIXES) or isinstance(o, self.extra_expand):
            d = getattr(o, "__dict__", None)
            if d is not None:
                return ("obj", type(o).__name__) + tuple((k, c(v, depth + 1)) for k, v in sorted(d.items()) if k not in self.skip_attrs)
        if isinstance(o, (types.SimpleNamespace,)):
            return ("ns",) + tuple((k, c(v, depth + 1)) for k, v in sorted(o.__dict__.items()))
        it = _iter_state(o)
        if it is not None:
            return it
        return ("opaque", type(o).__name__)

    def locals(self, f, depth):
        return tuple((k, self.c(v, depth)) for k, v in sorted(f.f_locals.items()))


def _iter_state(o):
    # list / tuple / range iterators expose their position through __reduce__
    tn = type(o).__name__
    if tn in ("list_iterator", "tuple_iterator", "range_iterator", "list_reverseiterator"):
        try:
            r = o.__reduce__()
            return ("iter", tn, r[2] if len(r) > 2 else None)
        except Exception:
            return None
    return None


def _skip(fn):
    return fn.endswith(_SKIP_FILES) or any(s in fn for s in _SKIP_FILES)


def global_state(s, extra=None, canon=None):
    """hashable digest of the whole execution state at a scheduling point"""
    frames = sys._current_frames()
    cn = canon or Canon()
    ts = []
    for vt in s.threads:
        if not vt.started:
            ts.append(("unstarted", cn.c(vt.target), cn.c(vt.args), cn.c(vt.kwargs)))
            continue
        if vt.done:
            ts.append(("done",))
            continue
        f = frames.get(vt.ident)
        st = []
        while f is not None:
            if not _skip(f.f_code.co_filename):
                st.append(cn.c(f))
            f = f.f_back
        w = vt.waiting_on
        if not st:  # started, not yet run: its future is its target
            st.append(("fresh", cn.c(vt.target), cn.c(vt.args), cn.c(vt.kwargs)))
        ts.append(("live", (w[0], cn.c(w[1])) if w else None, tuple(st)))
    cur = s.cur.idx if s.cur is not None else None
    body = (cur, tuple(ts), cn.c(extra))
    return hashlib.blake2b(repr(body).encode(), digest_size=12).digest(), body
