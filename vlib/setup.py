"""setup_cmd: offline; validates the static files and warms the numba cache for the current /repo sources."""
import json, os, sys


def main():
    from vlib import runner

    k = runner.load_known()
    for e in k["known"]:
        assert e.get("property") and e.get("what") and (e.get("fingerprint") or e.get("fingerprint_prefix")), e
    man = json.load(open(os.path.join(runner.VERIF, "MANIFEST.json")))
    from vlib import schema

    err = schema.validate(man, "/root/.vp/MANIFEST.schema.json")
    assert not err, err
    import strax  # noqa: F401  (compiles the eagerly-jitted functions into the keyed cache dir)
    from vlib import warm

    warm.warm()

    print("setup ok; numba cache:", os.environ.get("NUMBA_CACHE_DIR"), "strax", strax.__version__, "from", os.path.dirname(strax.__file__))
    return 0
