"""Process environment owned by the harness.  Imported before strax/numba.

1. numba's on-disk cache is not safe against concurrent writers (IndexDataCacheFile.save does
   load-index / pick-free-name / save-index / save-data without a lock, so two workers compiling
   different signatures of one function can make the index point a signature at the other's
   machine code -> silent type confusion -> false alarms).  We serialise save/load with flock.
2. The cache directory is keyed by a hash of the strax sources (a cached caller would otherwise
   keep an inlined, stale copy of a callee edited in another file).
"""
import fcntl, hashlib, os, shutil, sys

VERIF = os.path.dirname(os.path.dirname(os.path.abspath(__file__)))
REPO = os.environ.get("VERIF_REPO", "/repo")


def source_hash():
    h = hashlib.sha1()
    root = os.path.join(REPO, "strax")
    for dp, dn, fn in sorted(os.walk(root)):
        dn.sort()
        for f in sorted(fn):
            if f.endswith(".py"):
                p = os.path.join(dp, f)
                h.update(p.encode())
                with open(p, "rb") as fh:
                    h.update(fh.read())
    return h.hexdigest()[:16]


def setup_cache_dir():
    base = os.path.join(VERIF, ".cache", "numba")
    if os.environ.get("VERIF_NUMBA_DIR_SET"):
        return
    d = os.path.join(base, source_hash())
    os.makedirs(d, exist_ok=True)
    os.utime(d)
    # keep the 3 most recently used source versions
    try:
        olds = sorted((e for e in os.scandir(base) if e.is_dir()), key=lambda e: e.stat().st_mtime, reverse=True)
        for e in olds[3:]:
            shutil.rmtree(e.path, ignore_errors=True)
    except OSError:
        pass
    os.environ["NUMBA_CACHE_DIR"] = d
    os.environ["VERIF_NUMBA_DIR_SET"] = "1"


setup_cache_dir()

import numba.core.caching as _c  # noqa: E402

if not getattr(_c.IndexDataCacheFile, "_verif_locked", False):
    _orig_save = _c.IndexDataCacheFile.save
    _orig_load = _c.IndexDataCacheFile.load
    _held = {"depth": 0, "fh": None}  # re-entrant within the process: a load can trigger a nested compile + save

    class _CacheLock:
        def __init__(self, cachefile):
            self.dir = os.path.dirname(cachefile._index_path)

        def __enter__(self):
            if _held["depth"] == 0:
                try:
                    # one lock for the whole cache tree (nested loads/saves touch other directories)
                    fh = open(os.path.join(os.environ.get("NUMBA_CACHE_DIR", self.dir), ".verif.lock"), "a+")
                    fcntl.flock(fh, fcntl.LOCK_EX)
                    _held["fh"] = fh
                except OSError:
                    _held["fh"] = None
            _held["depth"] += 1

        def __exit__(self, *a):
            _held["depth"] -= 1
            if _held["depth"] == 0 and _held["fh"] is not None:
                try:
                    fcntl.flock(_held["fh"], fcntl.LOCK_UN)
                finally:
                    _held["fh"].close()
                    _held["fh"] = None
            return False

    def _save(self, key, data):
        with _CacheLock(self):
            return _orig_save(self, key, data)

    def _load(self, key):
        with _CacheLock(self):
            return _orig_load(self, key)

    _c.IndexDataCacheFile.save = _save
    _c.IndexDataCacheFile.load = _load
    _c.IndexDataCacheFile._verif_locked = True


# ---------------------------------------------------------------------------------------------
# concurrent.futures.wait is usually bound by `from concurrent.futures import wait` at import time.
# Install a dispatcher BEFORE strax is imported, so that code which (newly) imports it still blocks
# through the controlled scheduler when it is handed scheduler-controlled futures.
import concurrent.futures as _cf  # noqa: E402

if not getattr(_cf.wait, "_verif_smart", False):
    _real_wait = _cf.wait

    def _smart_wait(fs, timeout=None, return_when=_cf.ALL_COMPLETED):
        try:
            from vlib import vsched
        except Exception:  # pragma: no cover
            return _real_wait(fs, timeout=timeout, return_when=return_when)
        fs = list(fs)
        if vsched.SCHED is not None and fs and all(isinstance(f, vsched.VFuture) for f in fs):
            return vsched.vwait(fs, timeout=timeout, return_when=return_when)
        return _real_wait(fs, timeout=timeout, return_when=return_when)

    _smart_wait._verif_smart = True
    _cf.wait = _smart_wait
    import concurrent.futures._base as _cfb

    _cfb.wait = _smart_wait
