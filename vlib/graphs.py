"""Harness plugin-graph catalogue with a whole-run reference evaluation.

A *spec* is a list of node dicts; build(spec, ...) generates fresh strax plugin classes and a
context; reference(spec) computes every data type bottom-up on the whole, unchunked run with the
same row functions, with no chunking, mailbox or storage involved.

node kinds: source, map, filter, merge2, loop, multi, overlap, downchunk, exhaust, cut
Every dtype is (time, endtime, rid, v_<name>); rid is the originating source row."""
import itertools
import numpy as np
import strax
from immutabledict import immutabledict
from vlib.smallscope import assign_rows

SCALE = 600  # ns per grid step: 1 step < DEFAULT_CHUNK_SPLIT_NS (1000) < 2 steps


def dt_for(name):
    return np.dtype(strax.time_fields + [(("source row", "rid"), np.int32), ((f"value of {name}", f"v_{name}"), np.int64)])


def _out(x, name, v, rid=None):
    r = np.zeros(len(x), dt_for(name))
    r["time"] = x["time"]
    r["endtime"] = strax.endtime(x)
    r["rid"] = x["rid"] if rid is None else rid
    r[f"v_{name}"] = v
    return r


# ---------------------------------------------------------------- row functions (shared by plugin and reference)
def f_map(name, dep, x):
    return _out(x, name, 3 * x[f"v_{dep}"] + 1)


def f_filter(name, dep, x):
    x = x[x[f"v_{dep}"] % 2 == 0]
    return _out(x, name, x[f"v_{dep}"])


def f_merge2(name, a, b, x):
    return _out(x, name, x[f"v_{a}"] * 10 + x[f"v_{b}"])


def f_loop_one(base_row, things, base_dep, thing_dep):
    return int(base_row[f"v_{base_dep}"]) + 100 * len(things) + int(things[f"v_{thing_dep}"].sum())


def f_loop_ref(name, base_dep, thing_dep, base, things):
    v = np.zeros(len(base), np.int64)
    for i, b in enumerate(base):
        m = (things["time"] >= b["time"]) & (strax.endtime(things) <= b["endtime"])
        v[i] = f_loop_one(b, things[m], base_dep, thing_dep)
    return _out(base, name, v)


def f_overlap(name, dep, x, wl, wr, group=False):
    t, e = x["time"], strax.endtime(x)
    n = len(x)
    nl = np.zeros(n, np.int64)
    nr = np.zeros(n, np.int64)
    for i in range(n):
        nl[i] = np.sum((e > t[i] - wl) & (t < t[i]) & (np.arange(n) != i))
        nr[i] = np.sum((t < e[i] + wr) & (t >= e[i]) & (np.arange(n) != i))
    r = _out(x, name, nl * 10 + nr + 1000 * x[f"v_{dep}"])
    if group:
        r = r[nl == 0]
    return r


def f_down(name, dep, x):
    return _out(x, name, x[f"v_{dep}"] + 5)


def f_exhaust(name, dep, x):
    return _out(x, name, np.cumsum(x[f"v_{dep}"]))


def src_rows(name, iv, scale=SCALE, offset=0):
    r = np.zeros(len(iv), dt_for(name))
    for i, (a, b) in enumerate(iv):
        r[i] = (offset + a * scale, offset + b * scale, i, (i * 7 + 3) % 5)
    return r


# ---------------------------------------------------------------- spec helpers
def N(name, kind, deps=(), **kw):
    return dict(name=name, kind=kind, deps=tuple(deps), **kw)


def provides_of(n):
    if n["kind"] == "multi":
        return (n["name"] + "_a", n["name"] + "_b")
    return (n["name"],)


def kinds_of(spec):
    """data kind per data type"""
    k = {}
    for n in spec:
        nm, kd = n["name"], n["kind"]
        if kd == "source":
            k[nm] = "k_" + nm
        elif kd in ("map", "merge2", "downchunk", "exhaust", "cut") or (kd == "overlap" and not n.get("group")):
            k[nm] = k[n["deps"][0]]
        elif kd in ("filter",) or kd == "overlap":
            k[nm] = "k_" + nm
        elif kd == "loop":
            k[nm] = k[n["deps"][0]]
        elif kd == "multi":
            k[nm + "_a"] = k[n["deps"][0]]
            k[nm + "_b"] = "k_" + nm + "_b"
    return k


def reference(spec, sources):
    """whole-run evaluation: {data_type: rows}.  sources: {name: dict(iv=..., ...)}"""
    out = {}
    for n in spec:
        nm, kd, deps = n["name"], n["kind"], n["deps"]
        if kd == "source":
            s = sources[nm]
            out[nm] = src_rows(nm, s["iv"], s.get("scale", SCALE), s.get("offset", 0))
        elif kd == "map":
            out[nm] = f_map(nm, deps[0], out[deps[0]])
        elif kd == "filter":
            out[nm] = f_filter(nm, deps[0], out[deps[0]])
        elif kd == "merge2":
            x = strax.merge_arrs([out[deps[0]], out[deps[1]]], dtype=strax.merged_dtype([out[d].dtype for d in sorted(deps)]))
            out[nm] = f_merge2(nm, deps[0], deps[1], x)
        elif kd == "loop":
            out[nm] = f_loop_ref(nm, deps[0], deps[1], out[deps[0]], out[deps[1]])
        elif kd == "multi":
            out[nm + "_a"] = f_map(nm + "_a", deps[0], out[deps[0]])
            out[nm + "_b"] = f_filter(nm + "_b", deps[0], out[deps[0]])
        elif kd == "overlap":
            wl, wr = n["window"]
            out[nm] = f_overlap(nm, deps[0], out[deps[0]], wl * SCALE, wr * SCALE, n.get("group", False))
        elif kd == "downchunk":
            out[nm] = f_down(nm, deps[0], out[deps[0]])
        elif kd == "exhaust":
            out[nm] = f_exhaust(nm, deps[0], out[deps[0]])
        elif kd == "cut":
            x = out[deps[0]]
            r = np.zeros(len(x), strax.time_fields + [("cut_" + nm, bool)])
            r["time"], r["endtime"] = x["time"], strax.endtime(x)
            r["cut_" + nm] = x[f"v_{deps[0]}"] % 2 == 0
            out[nm] = r
    return out


# ---------------------------------------------------------------- plugin generation
class World:
    """Per-case mutable state shared with the generated plugin classes."""

    def __init__(self, spec, sources):
        self.spec = spec
        self.sources = sources
        self.log = []  # (node, start, end, {kind: tuple(rids)})
        self.calls = {}  # node -> number of compute calls
        self.fault = None  # callable(node, call_index) -> None | raises
        self.post = None  # callable(node, call_index, plugin, result, start, end) -> result (contract-violation injection)
        self.source_calls = {}

    def note(self, node, start, end, arrays):
        self.calls[node] = self.calls.get(node, 0) + 1
        self.log.append((node, start, end, {k: tuple(int(r) for r in v["rid"]) for k, v in arrays.items()}))
        if self.fault is not None:
            self.fault(node, self.calls[node] - 1)


_counter = itertools.count()


def _with_post(orig, nm, kd):
    """wrap a generated compute so that World.post can tamper with its result (signature preserved
    through __wrapped__, which strax's inspect.signature follows)"""
    import functools, inspect

    if inspect.isgeneratorfunction(orig):

        @functools.wraps(orig)
        def compute(self, *a, **k):
            w = self._world
            for j, r in enumerate(orig(self, *a, **k)):
                if w.post is not None:
                    r = w.post(nm, (w.calls.get(nm, 1) - 1, j), self, r, k.get("start"), k.get("end"))
                yield r

    else:

        @functools.wraps(orig)
        def compute(self, *a, **k):
            r = orig(self, *a, **k)
            w = self._world
            if w.post is not None:
                idx = k["chunk_i"] if "chunk_i" in k else (a[0] if (kd == "source" and a) else w.calls.get(nm, 1) - 1)
                r = w.post(nm, idx, self, r, k.get("start"), k.get("end"))
            return r

    return compute


def make_classes(spec, world, attrs=None):
    """-> list of plugin classes (fresh per call).  attrs: {node: {class attribute overrides}}"""
    attrs = attrs or {}
    kinds = kinds_of(spec)
    uid = next(_counter)
    classes = []
    for n in spec:
        nm, kd, deps = n["name"], n["kind"], n["deps"]
        base_attrs = dict(depends_on=deps, provides=nm, data_kind=kinds.get(nm), dtype=dt_for(nm), __version__="0.0.1", _world=world, _node=nm)
        if kd == "source":

            def is_ready(self, chunk_i, nm=nm):
                return chunk_i < len(self._world.sources[nm]["bounds"]) - 1

            def source_finished(self):
                return True

            def compute(self, chunk_i, nm=nm):
                w = self._world
                s = w.sources[nm]
                sc, off = s.get("scale", SCALE), s.get("offset", 0)
                w.source_calls[nm] = w.source_calls.get(nm, 0) + 1
                if w.fault is not None:
                    w.fault(nm, chunk_i)
                b = s["bounds"]
                a, e = b[chunk_i], b[chunk_i + 1]
                rows = src_rows(nm, s["iv"], sc, off)
                idx = assign_rows(s["iv"], b)[chunk_i]
                data = rows[idx] if idx else rows[:0]
                return self.chunk(start=off + a * sc, end=off + e * sc, data=data)

            base_attrs.update(is_ready=is_ready, source_finished=source_finished, compute=compute, depends_on=(), rechunk_on_save=False)
            bases = (strax.Plugin,)
        elif kd in ("map", "filter", "merge2", "exhaust"):
            fn = dict(map=f_map, filter=f_filter, merge2=f_merge2, exhaust=f_exhaust)[kd]

            def compute(self, start, end, nm=nm, deps=deps, fn=fn, **kw):
                self._world.note(nm, start, end, kw)
                (x,) = kw.values()
                return fn(nm, *deps, x)

            base_attrs.update(compute=compute)
            bases = (strax.ExhaustPlugin,) if kd == "exhaust" else (strax.Plugin,)
        elif kd == "loop":

            def compute_loop(self, base_row, nm=nm, deps=deps, **kw):
                (things,) = kw.values()
                return dict(time=base_row["time"], endtime=base_row["endtime"], rid=base_row["rid"], **{f"v_{nm}": f_loop_one(base_row, things, deps[0], deps[1])})

            def compute(self, start, end, nm=nm, **kw):
                self._world.note(nm, start, end, kw)
                return strax.LoopPlugin.compute(self, **kw)

            base_attrs.update(compute_loop=compute_loop, compute=compute, loop_over=kinds[deps[0]])
            bases = (strax.LoopPlugin,)
        elif kd == "multi":
            pa, pb = nm + "_a", nm + "_b"

            def compute(self, start, end, nm=nm, deps=deps, pa=pa, pb=pb, **kw):
                self._world.note(nm, start, end, kw)
                (x,) = kw.values()
                return {pa: f_map(pa, deps[0], x), pb: f_filter(pb, deps[0], x)}

            base_attrs.update(compute=compute, provides=(pa, pb), data_kind=immutabledict({pa: kinds[pa], pb: kinds[pb]}), dtype={pa: dt_for(pa), pb: dt_for(pb)})
            bases = (strax.Plugin,)
        elif kd == "overlap":
            wl, wr = n["window"]

            def get_window_size(self, wl=wl, wr=wr, scalar=n.get("scalar_window", False)):
                return wl * SCALE if scalar else (wl * SCALE, wr * SCALE)

            def compute(self, start, end, nm=nm, deps=deps, wl=wl, wr=wr, group=n.get("group", False), **kw):
                self._world.note(nm, start, end, kw)
                (x,) = kw.values()
                return f_overlap(nm, deps[0], x, wl * SCALE, wr * SCALE, group)

            base_attrs.update(get_window_size=get_window_size, compute=compute)
            bases = (strax.OverlapWindowPlugin,)
        elif kd == "downchunk":

            def compute(self, start, end, nm=nm, deps=deps, **kw):
                self._world.note(nm, start, end, kw)
                (x,) = kw.values()
                r = f_down(nm, deps[0], x)
                cuts = [start] + [int(e) for e in r["endtime"][:-1]] + [end]
                for i in range(len(cuts) - 1):
                    yield self.chunk(start=cuts[i], end=cuts[i + 1], data=r[i : i + 1])

            base_attrs.update(compute=compute, rechunk_on_save=False)
            bases = (strax.DownChunkingPlugin,)
        elif kd == "cut":

            def cut_by(self, nm=nm, deps=deps, **kw):
                (x,) = kw.values()
                return x[f"v_{deps[0]}"] % 2 == 0

            base_attrs.pop("dtype")
            base_attrs.update(cut_by=cut_by, cut_name="cut_" + nm)
            bases = (strax.CutPlugin,)
        else:
            raise ValueError(kd)
        for k in ("save_when", "rechunk_on_save", "chunk_target_size_mb", "parallel", "compressor", "allow_superrun", "rechunk_on_load", "chunk_source_size_mb", "max_messages"):
            if k in n:
                base_attrs[k] = n[k]
        base_attrs.update(attrs.get(nm, {}))
        if "compute" in base_attrs:
            base_attrs["compute"] = _with_post(base_attrs["compute"], nm, kd)
        cls = type(f"H{uid}_{nm}", bases, base_attrs)
        classes.append(cls)
    return classes


def target_size_rows(nrows, name):
    """chunk_target_size_mb value corresponding to nrows rows of dtype dt_for(name)"""
    return (nrows * dt_for(name).itemsize + 1) / 1e6


CTX_DEFAULTS = dict(allow_multiprocess=False, allow_shm=False, allow_lazy=True, allow_rechunk=True, max_messages=4, timeout=3600, check_available=(), use_per_run_defaults=False)


def build(spec, sources, storage=None, attrs=None, config=None, **ctx):
    """-> (context, world).  storage: list of frontends / path / None"""
    world = World(spec, sources)
    classes = make_classes(spec, world, attrs)
    opts = dict(CTX_DEFAULTS)
    opts.update(ctx)
    st = strax.Context(storage=storage if storage is not None else [], register=classes, config=config or {}, **opts)
    return st, world


# ---------------------------------------------------------------- catalogue
def catalogue():
    S = lambda nm="src": N(nm, "source")
    return {
        "chain2": [S(), N("mp", "map", ["src"])],
        "chain3": [S(), N("mp", "map", ["src"]), N("fl", "filter", ["mp"])],
        "diamond": [S(), N("pa", "map", ["src"]), N("pb", "map", ["src"]), N("mg", "merge2", ["pa", "pb"])],
        "twokind": [N("ev", "source"), N("th", "source"), N("lp", "loop", ["ev", "th"])],
        "multi_used": [S(), N("mo", "multi", ["src"]), N("nn", "map", ["mo_a"])],
        "multi_merge": [S(), N("mo", "multi", ["src"]), N("mg", "merge2", ["src", "mo_a"])],
        "overlap_mid": [S(), N("ow", "overlap", ["src"], window=(1, 2)), N("mp", "map", ["ow"])],
        "down_mid": [S(), N("dc", "downchunk", ["src"]), N("mp", "map", ["dc"])],
        "exhaust_end": [S(), N("mp", "map", ["src"]), N("ex", "exhaust", ["mp"])],
    }


def quiet():
    """silence strax's unconditional print()s (module-level name shadows the builtin)"""
    import strax.plugins.plugin, strax.plugins.parrallel_source_plugin, strax.processors.threaded_mailbox, strax.context

    nop = lambda *a, **k: None
    for m in (strax.plugins.plugin, strax.plugins.parrallel_source_plugin, strax.processors.threaded_mailbox, strax.context):
        m.print = nop


def final_target(spec):
    return provides_of(spec[-1])[0] if spec[-1]["kind"] != "multi" else spec[-1]["name"] + "_a"


def all_types(spec):
    return [p for n in spec for p in provides_of(n)]
