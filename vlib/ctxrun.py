"""Helpers to run Context-level calls: scratch dirs, controlled default-schedule execution of the
threaded processor, chunk/row comparison."""
import os, shutil, itertools
import numpy as np
import strax
from vlib import vsched, runner, explore


class Deadlock(Exception):
    pass


_dir_counter = itertools.count()


def fresh_dir(tag="d"):
    d = os.path.join(runner.workdir(), f"{tag}{next(_dir_counter) % 8}")
    shutil.rmtree(d, ignore_errors=True)
    os.makedirs(d)
    return d


def run_controlled(fn, chooser=None):
    """Run fn() inside the controlled scheduler (default schedule unless a chooser is given).
    Returns fn's value; re-raises fn's exception; raises Deadlock on deadlock."""
    box = {}

    def main():
        try:
            box["v"] = fn()
        except vsched.Abort:
            raise
        except BaseException as e:  # noqa
            box["e"] = e

    s = vsched.Sched(chooser or (lambda s, en, ce: 0))
    vsched.SCHED = s
    try:
        s.run(main)
    finally:
        vsched.SCHED = None
    if s.deadlock:
        raise Deadlock("deadlock: " + ", ".join(f"{t.name}<-{t.waiting_on[0] if t.waiting_on else '?'}" for t in s.threads if t.started and not t.done))
    if "e" in box:
        raise box["e"]
    live = [t.name for t in s.threads if t.started and not t.done]
    if live:
        raise Deadlock(f"threads alive after return: {live}")
    if s.uncaught:
        box["uncaught"] = s.uncaught
    return box.get("v")


def call(st, fn, processor, **kw):
    """call fn(processor=..., **kw) - under the controlled scheduler if the processor is threaded"""
    if processor == "threaded_mailbox":
        return run_controlled(lambda: fn(processor=processor, **kw))
    return fn(processor=processor, **kw)


def get_chunks(st, run_id, target, processor="single_thread", **kw):
    def f(processor, **k):
        return [c for c in st.get_iter(run_id, target, processor=processor, progress_bar=False, **k)]

    return call(st, f, processor, **kw)


def rows_equal(a, b):
    """bit-identical structured arrays (field names and values)"""
    if a.dtype.names != b.dtype.names or len(a) != len(b):
        return False
    return all(np.array_equal(a[f], b[f]) for f in a.dtype.names)


def tiling_violation(chunks):
    """chunks tile [first.start, last.end) contiguously and every row lies inside its chunk"""
    for i, c in enumerate(chunks):
        if i and c.start != chunks[i - 1].end:
            return f"chunk {i} starts at {c.start}, previous ended at {chunks[i-1].end}"
        if c.end < c.start:
            return f"chunk {i} has negative duration"
        if len(c.data):
            if c.data["time"].min() < c.start or strax.endtime(c.data).max() > c.end:
                return f"chunk {i} [{c.start},{c.end}) carries a row outside its range"
    return None


def concat(chunks, dtype=None):
    if not chunks:
        return np.zeros(0, dtype) if dtype is not None else None
    return np.concatenate([c.data for c in chunks])


def stored_types(st, run_id, types):
    return {t for t in types if st.is_stored(run_id, t)}


def exc_fp(e, depth=2):
    """fingerprint of an exception: class + the innermost `depth` strax call sites (file.function),
    i.e. *where in strax* it was raised - independent of line numbers and of the harness"""
    tb = e.__traceback__
    sites = []
    while tb:
        fn = tb.tb_frame.f_code.co_filename
        if "/strax/" in fn:
            sites.append(os.path.basename(fn)[:-3] + "." + tb.tb_frame.f_code.co_name)
        tb = tb.tb_next
    return f"raised:{type(e).__name__}:" + ">".join(sites[-depth:])
