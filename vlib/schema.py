"""JSON-schema validation; jsonschema lives in the tooling venv (python3-vt), not in /venv."""
import json, subprocess, tempfile, os


def validate(obj, schema_path):
    """-> None if valid (or no validator available), else an error string"""
    if not os.path.exists(schema_path):
        return None
    try:
        import jsonschema

        try:
            jsonschema.validate(obj, json.load(open(schema_path)))
            return None
        except jsonschema.ValidationError as e:
            return str(e)[:600]
    except ImportError:
        pass
    with tempfile.NamedTemporaryFile("w", suffix=".json", delete=False) as f:
        json.dump(obj, f)
    try:
        p = subprocess.run(
            ["python3-vt", "-c", "import json,sys,jsonschema\ntry:\n jsonschema.validate(json.load(open(sys.argv[1])), json.load(open(sys.argv[2])))\nexcept jsonschema.ValidationError as e:\n print(str(e)[:600]); sys.exit(1)", f.name, schema_path],
            capture_output=True, text=True, timeout=60)
        if p.returncode == 1:
            return p.stdout.strip() or "invalid"
        return None
    except (FileNotFoundError, subprocess.TimeoutExpired):
        return None
    finally:
        os.unlink(f.name)
