import argparse, importlib, os, sys, warnings, logging
from vlib import env  # noqa: F401

warnings.simplefilter("ignore")
logging.disable(logging.CRITICAL)


def main():
    ap = argparse.ArgumentParser()
    ap.add_argument("id")
    ap.add_argument("--tier", default=os.environ.get("VERIF_TIER", "quick"), choices=["quick", "thorough"])
    ap.add_argument("--replay")
    ap.add_argument("--jobs", help="comma separated job indices (debugging)")
    a = ap.parse_args()
    seed = int(os.environ.get("VERIF_SEED", "0") or 0)
    from vlib import runner

    if a.id == "setup":
        from vlib import setup

        sys.exit(setup.main())
    mod = importlib.import_module(f"vlib.checks.{a.id.lower()}")
    if a.replay:
        sys.exit(runner.do_replay(mod, a.replay))
    only = None
    if a.jobs:
        only = set(int(x) for x in a.jobs.split(","))
    sys.exit(runner.run_check(mod, a.tier, seed, only))


if __name__ == "__main__":
    main()
