"""Exhaustive small-scope generators (deterministic, duplicate-free)."""
import itertools
import numpy as np


def interval_sets(n, lo, hi, disjoint=False, min_len=1, max_len=None, sorted_end=False):
    """All sequences of n intervals (a,b), lo<=a<=b<=hi, b-a>=min_len, sorted by start
    (ties: by end), as tuples.  disjoint: b_i <= a_{i+1}.  Duplicates allowed unless disjoint
    and min_len>0 forbid them.  sorted_end: additionally ends non-decreasing."""
    alls = [(a, b) for a in range(lo, hi + 1) for b in range(a + min_len, hi + 1) if max_len is None or b - a <= max_len]
    alls.sort()

    def rec(prefix, start_idx):
        if len(prefix) == n:
            yield tuple(prefix)
            return
        for i in range(start_idx, len(alls)):
            a, b = alls[i]
            if prefix:
                pa, pb = prefix[-1]
                if disjoint and a < pb:
                    continue
                if sorted_end and b < pb:
                    continue
            prefix.append((a, b))
            yield from rec(prefix, i)  # i (not i+1): identical intervals allowed
            prefix.pop()

    if n == 0:
        yield ()
        return
    yield from rec([], 0)


def interval_sets_upto(nmax, lo, hi, **kw):
    for n in range(nmax + 1):
        yield from interval_sets(n, lo, hi, **kw)


def admissible_cuts(iv, t0, t1):
    """grid times strictly inside (t0,t1) at which no interval of iv is straddled"""
    return [t for t in range(t0 + 1, t1) if not any(a < t < b for a, b in iv)]


def chunkings(iv, t0, t1, max_cuts=None, zero_dur=False):
    """All law-abiding chunk boundary tuples (t0, c1, ..., t1) for rows iv over [t0,t1).
    zero_dur: additionally allow each cut (and t0, t1) to be doubled once, which produces a
    zero-duration (necessarily data-free for min_len>=1 rows) chunk at that time."""
    adm = admissible_cuts(iv, t0, t1)
    kmax = len(adm) if max_cuts is None else min(max_cuts, len(adm))
    for k in range(kmax + 1):
        for cuts in itertools.combinations(adm, k):
            b = (t0,) + cuts + (t1,)
            yield b
            if zero_dur:
                # double exactly one boundary (keeps the space linear in the number of cuts)
                for i in range(len(b)):
                    yield b[: i + 1] + b[i:]


def assign_rows(iv, bounds):
    """row indices per chunk for boundaries `bounds`; zero-duration chunks get nothing.
    Rows of zero length at a boundary go to the right chunk (the convention of split)."""
    out = []
    used = set()
    for a, b in zip(bounds[:-1], bounds[1:]):
        idx = []
        if b > a:
            for i, (s, e) in enumerate(iv):
                if i in used:
                    continue
                if a <= s and e <= b and (s < b or (s == e == b and False)):
                    idx.append(i)
                    used.add(i)
        out.append(idx)
    return out


def partitions_contiguous(n):
    """all ways of cutting range(n) into contiguous non-empty pieces: list of (lo,hi) index pairs"""
    for k in range(n):
        for cuts in itertools.combinations(range(1, n), k):
            b = (0,) + cuts + (n,)
            yield tuple(zip(b[:-1], b[1:]))


# ---------------------------------------------------------------- dtypes / arrays
import strax  # noqa: E402

DT_END = np.dtype(strax.time_fields + [(("row id", "rid"), np.int32)])
DT_DTLEN = np.dtype(strax.time_dt_fields + [(("row id", "rid"), np.int32)])
DT_ARR = np.dtype(strax.time_fields + [(("row id", "rid"), np.int32), (("payload", "pay"), np.int16, 3)])
DT_NOTITLE = np.dtype([("time", np.int64), ("endtime", np.int64), ("rid", np.int32), ("x", np.float32)])


def mk_rows(iv, dtype=DT_END, scale=1, offset=0, ids=None):
    r = np.zeros(len(iv), dtype)
    names = r.dtype.names
    for i, (a, b) in enumerate(iv):
        r[i]["time"] = offset + a * scale
        if "endtime" in names:
            r[i]["endtime"] = offset + b * scale
        else:
            r[i]["dt"] = scale
            r[i]["length"] = b - a
        r[i]["rid"] = i if ids is None else ids[i]
        if "pay" in names:
            r[i]["pay"] = (i, i * 7 % 5, -i)
        if "x" in names:
            r[i]["x"] = i + 0.5
    return r


def mk_chunks(iv, bounds, dtype=DT_END, data_type="src", data_kind="k", run_id="0", scale=1, offset=0, **kw):
    rows = mk_rows(iv, dtype, scale, offset)
    out = []
    for (a, b), idx in zip(zip(bounds[:-1], bounds[1:]), assign_rows(iv, bounds)):
        out.append(
            strax.Chunk(
                data_type=data_type,
                data_kind=data_kind,
                dtype=dtype,
                run_id=run_id,
                start=offset + a * scale,
                end=offset + b * scale,
                data=rows[idx] if idx else rows[:0],
                **kw,
            )
        )
    return out
