"""Stateless DFS explorer over schedules of a harness run under vsched, with optional
canonical-state pruning.  Regimes:
  full    : no bound; prune when a canonical state was already expanded (=> whole reachable graph)
  preempt : switching away from an enabled running thread costs 1 (CHESS); bound on the cost
  delay   : every non-default choice costs 1 (delay bounding); bound on the cost
An execution = replay a choice prefix, then default choices (index 0: keep running the current
thread if enabled, else lowest index)."""
import time
from vlib import vsched, canon as canon_mod


class ExploreResult:
    def __init__(self):
        self.executions = 0
        self.complete = 0
        self.states = 0
        self.transitions = 0
        self.maxdepth = 0
        self.deadlocks = 0
        self.outcomes = set()
        self.violations = []  # (kind, message, choices)
        self.cap_hit = None
        self.replay_checks = 0
        self.wall = 0.0


class Harness:
    """Base class.  One instance per execution."""

    quiescence_ok = False
    tracer = None

    def main(self):
        raise NotImplementedError

    def extra(self):
        return None

    def invariant(self, sched):
        return None

    def final(self, sched):
        """-> (observation key, violation message or None); called for complete executions and
        for deadlocked / quiescent ones (sched.deadlock / sched.quiescent tell which)."""
        return (None, None)

    def canon(self):
        return canon_mod.Canon()


def run_one(make, prefix, expect=None, visited=None, regime="full", bound=None, hashing=True, on_state=None, flip=False):
    h = make()
    choices, points = [], []
    info = dict(cut=None, inv=None, new=0)
    used = [0]

    def chooser(s, en, cur_enabled):
        i = len(choices)
        if info["inv"] is None:
            m = h.invariant(s)
            if m:
                info["inv"] = (m, list(choices))
        if i < len(prefix):
            c = prefix[i]
            if c >= len(en) or (expect is not None and i < len(expect) and expect[i][0] != len(en)):
                raise vsched.HarnessError(f"replay divergence at point {i}: choice {c}, enabled {len(en)}, expected {expect[i] if expect else None}")
        else:
            c = 0
            if hashing and visited is not None and info["cut"] is None:
                hsh, body = canon_mod.global_state(s, h.extra(), h.canon())
                rem = 0 if bound is None else bound - used[0]
                prev = visited.get(hsh)
                if prev is not None and prev >= rem:
                    info["cut"] = i
                    return None  # stop this execution: state already expanded with >= budget
                visited[hsh] = rem
                info["new"] += 1
                if on_state is not None:
                    on_state(hsh, body)
        if regime == "preempt":
            if cur_enabled and c != 0:
                used[0] += 1
        elif regime == "delay":
            if c != 0:
                used[0] += 1
        choices.append(c)
        points.append((len(en), cur_enabled, used[0]))
        # flip: the default (choice 0) is the LAST enabled thread instead of the first - a second deterministic base schedule
        # for delay-bounded exploration (deviations are counted the same way)
        return (len(en) - 1 - c) if flip else c

    s = vsched.Sched(chooser, quiescence_ok=h.quiescence_ok, tracer=h.tracer)
    vsched.SCHED = s
    vsched.VExecutor.instances.clear()
    try:
        s.run(h.main)
    finally:
        vsched.SCHED = None
    return h, s, choices, points, info


def explore(make, regime="full", bound=None, hashing=True, max_execs=None, max_seconds=None, res=None, on_state=None, flip=False):
    r = res or ExploreResult()
    t0 = time.time()
    visited = {} if hashing else None
    stack = [([], [])]
    while stack:
        if max_execs is not None and r.executions >= max_execs:
            r.cap_hit = f"max_execs={max_execs}"
            break
        if max_seconds is not None and time.time() - t0 > max_seconds:
            r.cap_hit = f"max_seconds={max_seconds}"
            break
        prefix, expect = stack.pop()
        h, s, choices, points, info = run_one(make, prefix, expect, visited, regime, bound, hashing, on_state, flip)
        r.executions += 1
        r.replay_checks += len(prefix)
        r.maxdepth = max(r.maxdepth, len(choices))
        if info["inv"]:
            r.violations.append(("invariant", info["inv"][0], info["inv"][1]))
        cut = info["cut"]
        if s.livelock:
            r.violations.append(("livelock", f"more than {s.max_points} scheduling points", list(choices[:200])))
        if cut is None:
            r.complete += 1
            if s.deadlock:
                r.deadlocks += 1
            key, viol = h.final(s)
            r.outcomes.add(key)
            if viol:
                r.violations.append(("deadlock" if s.deadlock else "final", viol, list(choices)))
            elif s.deadlock:
                r.violations.append(("deadlock", "no enabled thread while threads are unfinished: " + ", ".join(
                    f"{t.name}<-{t.waiting_on[0] if t.waiting_on else '?'}" for t in s.threads if t.started and not t.done), list(choices)))
        end = cut if cut is not None else len(points)
        r.transitions += max(0, end - len(prefix)) + (1 if prefix else 0)
        for i in range(len(prefix), end):
            ne, ce, used_after = points[i]
            c_i = choices[i]
            if regime == "preempt":
                used_before = used_after - (1 if (ce and c_i != 0) else 0)
            elif regime == "delay":
                used_before = used_after - (1 if c_i != 0 else 0)
            else:
                used_before = 0
            for alt in range(ne - 1, 0, -1):
                if regime == "preempt":
                    cost = used_before + (1 if ce else 0)
                elif regime == "delay":
                    cost = used_before + 1
                else:
                    cost = 0
                if bound is not None and cost > bound:
                    continue
                stack.append((choices[:i] + [alt], points[:i]))
    r.states = len(visited) if visited is not None else r.states
    r.wall += time.time() - t0
    return r


def replay(make, choices, flip=False):
    """Re-run one recorded schedule without exploring; returns (harness, sched)."""
    h, s, ch, pts, info = run_one(make, list(choices), None, None, "full", None, hashing=False, flip=flip)
    return h, s, info
