"""Warm the numba on-disk cache for the current /repo sources, once per source hash.

Executions under the controlled scheduler have a real-time hang detector; a first-time numba compilation inside such an
execution (cold cache after /repo changed) must not be mistaken for a hang, so the main process compiles what a small
pipeline needs BEFORE the workers start.  A marker file in the (source-keyed) cache directory makes this a no-op afterwards.
"""
import os, shutil, tempfile, warnings


def warm(force=False):
    d = os.environ.get("NUMBA_CACHE_DIR")
    if not d:
        return False
    marker = os.path.join(d, ".warmed")
    if os.path.exists(marker) and not force:
        return False
    import numpy as np
    import strax
    from vlib import graphs as g

    g.quiet()
    tmp = tempfile.mkdtemp(prefix="strax_verif_warm_", dir="/dev/shm" if os.path.isdir("/dev/shm") else None)
    try:
        with warnings.catch_warnings():
            warnings.simplefilter("ignore")
            cat = g.catalogue()
            iv = ((0, 1), (1, 2), (3, 4), (5, 6), (6, 7))
            for name, spec in cat.items():
                sources = {n["name"]: dict(iv=iv, bounds=(0, 2, 5, 8)) for n in spec if n["kind"] == "source"}
                if name == "twokind":
                    sources["ev"] = dict(iv=((0, 2), (2, 5), (5, 8)), bounds=(0, 2, 5, 8))
                for proc in ("single_thread", "threaded_mailbox"):
                    try:
                        sd = os.path.join(tmp, name + proc)
                        st, world = g.build(spec, sources, storage=[strax.DataDirectory(sd)])
                        t = g.final_target(spec)
                        st.get_array("0", t, processor=proc, progress_bar=False)
                        st2, _ = g.build(spec, sources, storage=[strax.DataDirectory(sd)])
                        st2.get_array("0", t, processor=proc, progress_bar=False, time_range=(600, 3000))
                    except Exception:
                        pass  # warming only; the checks judge behaviour
    finally:
        shutil.rmtree(tmp, ignore_errors=True)
    try:
        open(marker, "w").write("ok\n")
    except OSError:
        pass
    return True
