#!/venv/bin/python
"""seeded/INDEX.md from seeded/*/meta.json + seeded/detections.json"""
import glob, json, os
V = os.path.dirname(os.path.dirname(os.path.abspath(__file__)))
det = json.load(open(os.path.join(V, "seeded", "detections.json")))
rows = []
for m in sorted(glob.glob(os.path.join(V, "seeded", "*", "meta.json"))):
    d = json.load(open(m))
    sid = d["id"]
    x = det.get(sid, {})
    d.update(caught_by=x.get("caught_by", []), how=x.get("how", ""), needed_strengthening=x.get("needed_strengthening"))
    json.dump(d, open(m, "w"), indent=1)
    first = ""
    notes = os.path.join(os.path.dirname(m), "notes.md")
    if os.path.exists(notes):
        first = open(notes).readline().strip("# \n")
    rows.append((sid, d["property"], first, "yes" if d.get("confirmed") else "NO", ", ".join(d["caught_by"]) or "-", "yes" if d.get("needed_strengthening") else "no", d["how"]))
out = ["# Seeded property-breaking changes (written by independent sub-agents that never saw /verif)", "",
       "Each directory holds patch.diff (against the base commit in meta.json), demo.py (exit 0 without / non-zero with the change), notes.md (what it needs to manifest) and meta.json (my own confirmation in a scratch worktree: demo exits, pinned 185-test baseline with the change, which check reports it).", "",
       "| id | property | change | confirmed (baseline green, demo flips) | caught by | check had to be strengthened | how it shows up |", "|---|---|---|---|---|---|---|"]
for r in rows:
    out.append("| " + " | ".join(str(c).replace("|", "/") for c in r) + " |")
open(os.path.join(V, "seeded", "INDEX.md"), "w").write("\n".join(out) + "\n")
print(len(rows), "entries")
