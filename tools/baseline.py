#!/venv/bin/python
"""Run the repository's pinned baseline (command from /root/.vp/BASELINE.json) in a given checkout
and compare with the stable_pass list.  usage: baseline.py [repo_dir]   exit 0 = all 185 still pass"""
import json, os, subprocess, sys, tempfile, xml.etree.ElementTree as ET

src = sys.argv[1] if len(sys.argv) > 1 else "/repo"
# run on a snapshot so that later edits of the tree do not disturb the (4-minute) run
import shutil
repo = tempfile.mkdtemp(prefix="baseline_snapshot_")
subprocess.run(["rsync", "-a", "--exclude", ".git", "--exclude", "__pycache__", src + "/", repo + "/"], check=True)
base = json.load(open("/root/.vp/BASELINE.json"))
fd, out = tempfile.mkstemp(suffix=".xml"); os.close(fd)
cmd = base["cmd"].replace("cd /repo", f"cd {repo}").replace("<file>", out)
env = dict(os.environ); env.pop("STRAX_VERIF", None); env["PYTHONPATH"] = repo
p = subprocess.run(cmd, shell=True, capture_output=True, text=True, env=env)
passed = set()
for tc in ET.parse(out).getroot().iter("testcase"):
    if not any(ch.tag in ("failure", "error", "skipped") for ch in tc):
        passed.add(f"{tc.get('classname')}::{tc.get('name')}")
os.remove(out)
shutil.rmtree(repo, ignore_errors=True)
want = set(base["stable_pass"])
missing = sorted(want - passed)
print(f"baseline: {len(want & passed)}/{len(want)} stable tests pass; {len(passed)} passed in total")
for m in missing[:30]:
    print("  NO LONGER PASSING:", m)
if missing:
    print(p.stdout[-3000:])
sys.exit(1 if missing else 0)
