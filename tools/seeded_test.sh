#!/bin/bash
# usage: seeded_test.sh <patch.diff> <check ids...>
# applies a seeded patch on top of /repo (keeping uncommitted pending changes), runs quick checks, restores.
p=$1; shift
cd /repo || exit 9
git diff > /tmp/_pending.diff
if ! git apply --check "$p" 2>/dev/null; then echo "PATCH DOES NOT APPLY CLEANLY on the current tree: $p"; git apply --check "$p"; exit 8; fi
git apply "$p"
cd /verif
export VERIF_EVIDENCE_DIR=/tmp/seeded_evidence
for c in "$@"; do
  ./vcheck $c --tier ${TIER:-quick} 2>&1 | grep -E "^VIOLATION|^\[C|HARNESS|^KNOWN|fingerprint" | cut -c1-260 | head -${LINES_MAX:-8}
done
cd /repo && git checkout -q -- . && if [ -s /tmp/_pending.diff ]; then git apply /tmp/_pending.diff; fi
git diff --stat | tail -1
