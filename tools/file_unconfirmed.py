#!/venv/bin/python
"""File seeded changes that I could not re-confirm myself in time (machine load) under seeded/<id>/ with confirmed=false.
usage: file_unconfirmed.py <src_root> <base_commit> <id>...   (keeps existing confirmed entries untouched)"""
import json, os, shutil, sys

V = os.path.dirname(os.path.dirname(os.path.abspath(__file__)))
root, base = sys.argv[1:3]
for sid in sys.argv[3:]:
    dst = os.path.join(V, "seeded", sid)
    mp = os.path.join(dst, "meta.json")
    if os.path.exists(mp) and json.load(open(mp)).get("confirmed"):
        continue
    src = os.path.join(root, sid)
    os.makedirs(dst, exist_ok=True)
    for f in ("patch.diff", "demo.py", "notes.md"):
        if os.path.exists(os.path.join(src, f)):
            shutil.copy(os.path.join(src, f), os.path.join(dst, f))
    old = json.load(open(mp)) if os.path.exists(mp) else {}
    meta = dict(old, id=sid, property=sid.split("_")[0], base_commit=base, confirmed=False,
                confirmation_note="not re-confirmed by me: my own baseline run in a scratch worktree was not completed or lost a wall-clock-sensitive test under machine load; "
                "the authoring agent reported the baseline and the demo flip (see notes.md); the check result against this patch is recorded in detections.json")
    json.dump(meta, open(mp, "w"), indent=1)
    print("filed", sid)
