#!/venv/bin/python
"""Confirm one seeded change in a scratch worktree of /repo and file it under /verif/seeded/<id>/.
usage: confirm_seeded.py <id> <property> <src_dir> [base_commit]
 - demo.py must exit 0 on the clean worktree and non-zero with patch.diff applied
 - the pinned 185-test baseline must pass with patch.diff applied
writes seeded/<id>/{patch.diff,demo.py,notes.md,meta.json}; removes the worktree."""
import json, os, shutil, subprocess, sys, time

sid, prop, src = sys.argv[1:4]
base = sys.argv[4] if len(sys.argv) > 4 else "8205c57"
wt = f"/tmp/confirm_{sid}"
subprocess.run(["git", "-C", "/repo", "worktree", "remove", "--force", wt], capture_output=True)
subprocess.run(["git", "-C", "/repo", "worktree", "add", "-q", "--detach", wt, base], check=True)
env = dict(os.environ, PYTHONPATH=wt)
demo = os.path.join(src, "demo.py")
# demos written by the agents refer to their own worktree path: point them at ours
txt = open(demo).read()
for old in (f"/tmp/wt4_{prop}", f"/tmp/wt3_{prop}", f"/tmp/wt_{prop}"):
    txt = txt.replace(old, wt)
demo2 = f"/tmp/confirm_{sid}_demo.py"
open(demo2, "w").write(txt)


def run_demo():
    try:
        p = subprocess.run(["/venv/bin/python", demo2], env=env, capture_output=True, text=True, timeout=1500, cwd="/tmp")
        return p.returncode, (p.stdout + p.stderr)[-600:]
    except subprocess.TimeoutExpired:
        return 124, "timeout"


meta = dict(id=sid, property=prop, base_commit=base)
rc0, out0 = run_demo()
meta["demo_clean_exit"] = rc0
subprocess.run(["git", "-C", wt, "apply", os.path.join(src, "patch.diff")], check=True)
rc1, out1 = run_demo()
meta["demo_patched_exit"] = rc1
meta["demo_patched_tail"] = out1[-300:]
t0 = time.time()
p = subprocess.run(["/venv/bin/python", "/verif/tools/baseline.py", wt], capture_output=True, text=True)
meta["baseline"] = p.stdout.strip().splitlines()[0] if p.stdout.strip() else "no output"
meta["baseline_missing"] = [l.strip() for l in p.stdout.splitlines() if "NO LONGER PASSING" in l]
meta["baseline_wall_s"] = round(time.time() - t0)
base_ok = p.returncode == 0
if not base_ok and meta["baseline_missing"]:
    # tests with short wall-clock timeouts fail under machine load: re-run exactly the missing tests alone
    ids = []
    for l in meta["baseline_missing"]:
        t = l.split("NO LONGER PASSING:")[1].strip()
        mod, name = t.split("::")
        parts = mod.split(".")
        if parts[-1][0].isupper():  # tests.test_x.Class::name
            ids.append("/".join(parts[:-1]) + ".py::" + parts[-1] + "::" + name)
        else:
            ids.append("/".join(parts) + ".py::" + name)
    ok_alone = True
    for _ in range(2):
        q = subprocess.run(["/venv/bin/python", "-m", "pytest", "-q", "-p", "no:cacheprovider", "--timeout=900"] + ids, cwd=wt, env=env, capture_output=True, text=True)
        ok_alone = q.returncode == 0
        if ok_alone:
            break
    meta["missing_tests_rerun_alone"] = dict(tests=ids, passed=ok_alone, tail=q.stdout[-300:])
    base_ok = ok_alone
meta["confirmed"] = rc0 == 0 and rc1 != 0 and base_ok
dst = f"/verif/seeded/{sid}"
os.makedirs(dst, exist_ok=True)
for f in ("patch.diff", "demo.py", "notes.md"):
    if os.path.exists(os.path.join(src, f)):
        shutil.copy(os.path.join(src, f), os.path.join(dst, f))
old = {}
if os.path.exists(os.path.join(dst, "meta.json")):
    old = json.load(open(os.path.join(dst, "meta.json")))
old.update(meta)
json.dump(old, open(os.path.join(dst, "meta.json"), "w"), indent=1)
subprocess.run(["git", "-C", "/repo", "worktree", "remove", "--force", wt], capture_output=True)
os.remove(demo2)
print(sid, "confirmed" if meta["confirmed"] else "NOT CONFIRMED", meta["baseline"], "demo clean/patched exit:", rc0, rc1)
