#!/venv/bin/python
"""Regenerate MANIFEST.json from the table below (single source of truth for check registration)."""
import json, os
V = os.path.dirname(os.path.dirname(os.path.abspath(__file__)))
ALL = [f"C{i:02d}" for i in range(1, 20)]
T = {}
def add(pid, cat, text, note, tech, engine):
    T[pid] = dict(property_id=pid, quick_cmd=f"./vcheck {pid} --tier quick", thorough_cmd=f"./vcheck {pid} --tier thorough",
        evidence_file=f"/verif/evidence/{pid}.json", replay_cmd_template=f"./vcheck {pid} --replay {{path}}", engine=engine,
        level_claimed=dict(category=cat, text=text, design_ref=f"DESIGN.md §4 {pid}"), level_note=note, technique=tech)

add("C01", "exploration",
    "Exhaustive enumeration, on the real Context with harness plugin graphs (chain, filter, same-kind merge, two-kind loop, multi-output, overlap window, down-chunking, exhaust), of every disjoint source row set of <=3 rows x every law-abiding chunking (incl. empty / zero-duration chunks, independent per source) x processor/worker/lazy/capacity/rechunk cells x every pre-stored subset of data types; oracle = whole-run evaluation of the graph + contiguity + re-read of everything stored from a fresh context. Threaded runs execute under the controlled scheduler; a slice is explored over thread schedules (delay-bounded, stateless).",
    "small-scope hypothesis (<=3 rows/source, 5-point grid); enumerated threaded cells run one fixed schedule, schedules are exhausted only to delay bound 1-2 for the slice named in the evidence; no real OS processes",
    "bounded exhaustive enumeration of inputs x configurations on the implementation (+ delay-bounded schedule exploration under a controlled scheduler) vs whole-run reference", "graphs")
add("C02", "model_checking",
    "Explicit-state breadth-first search over operation histories of the real Context API (set_config of shared / private / untracked options, register of version bumps, same-named classes with another default, other classes, new_context, make, get_array, get_array from a second context, enabling fuzzy matching) on a 3-plugin chain bound to a shared DataDirectory; a state is the history that reaches it (replayed on a fresh context and directory), deduplicated by a canonical state that includes the plugin-cache signature; after every operation the keys must equal those of a brand-new context with the same settings, get_array must equal the rows defined by the current variants/options, the key-change relation must hold, fuzzy requests must return matching stored data and write nothing; a context from which another was derived with new_context stays alive and its keys must never change through operations on the derived one; keys are recomputed in subprocesses under 3 hash seeds x 2 option insertion orders.",
    "history depth 4 (thorough 5), one plugin chain, prefix-partitioned BFS (dedup per partition)",
    "explicit-state BFS over API operation histories with canonical-state dedup, every transition executed on the implementation", "histbfs")
add("C03", "exploration",
    "Exhaustive enumeration of every sorted interval array (<=3-4 rows) x every law-abiding chunk sequence x dtype x compressor x save-rechunk setting x serial/thread-pool saving x plain/executor/rechunk-on-load reading through the real FileSaver.save_from and backend loader; oracle: rows bit-identical in order, same overall range, contiguous chunks, boundaries equal to the written ones (no rechunk) or in row-free gaps (rechunk), and every metadata field consistent with the files on disk. Wide-gap 4-6-row layouts make one rechunker call / one rechunk-on-load of a stored chunk cut several times. Thorough additionally explores the completion orders of pool writes under the controlled scheduler.",
    "small-scope hypothesis (<=4 rows, 6-point grid); dtype/compressor/executor rotate over inputs in quick; pool writes run under a fixed schedule except in the thorough schedule slice",
    "bounded exhaustive enumeration of inputs x configurations on the implementation vs written data", "smallscope")
add("C04", "fault_enumeration",
    "Every mutating file-system operation (makedirs, create, each write, rename, remove, rmtree) issued by 14 write histories (Context.make / get_array of chain, diamond and multi-output graphs with the single-thread and threaded processors, worker pools, rechunking, bare Saver.save_from with and without thread pool, copy_to_frontend, overwrite of broken data) is enumerated from a logged fault-free run; for every operation x {ENOSPC, ENOSPC after half write, death before, death after, death with torn write} the real code is re-run, then a FRESH Context must find every type it reports stored complete and equal to the reference, the caller must have seen the I/O error, and an identical retry must succeed and leave valid data. Thorough adds a second fault during the retry. In addition, exceptions raised by plugin computations, chunk writes and chunk reads and an abandoned iterator at every (stage, chunk) position of 74 pipeline cells x processors are executed over every thread schedule with <= 0-1 delays under the controlled scheduler, with the same fresh-context storage post-condition.",
    "process death = no later file-system operation happens (completed ones persist); threaded histories run under the deterministic default schedule of the controlled scheduler; no real forked savers",
    "exhaustive fault / crash-point enumeration over the logged write history of the implementation (file-system interposer)", "fsfault")
add("C05", "model_checking",
    "Explicit-state model checking of the real strax.Mailbox: the complete reachable state graph (all thread schedules at lock/condition/thread-start/join/future granularity) of small sender/reader/worker configurations is explored by a stateless DFS with canonical-state pruning under a controlled scheduler that replaces strax.mailbox.threading; every terminal state must show exact in-order delivery to every subscriber and every state must respect the capacity; deadlock states are violations.",
    "atomicity between scheduling points (mailbox state only touched under its RLock); no condition time-outs or spurious wake-ups; canonical state hashing (cross-checked against stateless exploration at delay bound 1); bounds: <=3 subscribers, <=4-5 messages, capacity <=4",
    "explicit-state exploration of all thread interleavings of the implementation (stateless DFS + state hashing, controlled scheduler)", "vsched")
add("C06", "model_checking",
    "Stateless model checking of the real ThreadedMailboxProcessor driven through Context.get_iter under the controlled scheduler: for 153 cells (graph x failing stage {source, plugin, multi-output plugin, loader, saver of target / side output, consumer closing, none} x chunk index x {eager, lazy, worker pool}) every thread schedule with up to B delays is executed; the caller must receive exactly the injected exception, no deadlock state may exist, all pipeline threads must have terminated when the call returns, capacity is respected in every state and fault-free runs return the reference rows. 26 further failure cells run with capacity 1-2 and 5 chunks so that senders are blocked on full mailboxes when the failure happens. The single-thread processor is checked at every failure position.",
    "schedules exhausted only up to the delay bound (quick: 1 for half the cells, thorough: 1-2); atomic steps = lock / condition / thread / future operations of strax.mailbox and the executors (replaced by scheduler-controlled equivalents); waits never time out",
    "delay-bounded exhaustive exploration of thread interleavings of the implementation (controlled scheduler, stateless DFS, replay of every schedule prefix)", "vsched")
add("C07", "exploration",
    "Exhaustive small-scope enumeration of the real Chunk.split/concatenate/merge/Rechunker code against a reference model: every sorted interval array of <=4 rows on an 8-point grid x every split time x flags, every law-abiding partition, every gap pattern for get_splits, sub/superrun annotations. The finite space is visited completely, nothing is sampled.",
    "small-scope hypothesis (<=4-5 rows, 8 grid points); the reference model in vlib/checks/c07.py is trusted",
    "bounded exhaustive enumeration of inputs (small-scope checking of a sequential library) vs reference model", "smallscope")
add("C08", "exploration",
    "Exhaustive enumeration of dependency shapes (1 dep, 2 same-kind, 2 kinds, 2 same-kind + 1 other, 3 kinds) x every sorted row set of <=2-3 rows per kind x every independent law-abiding chunking of each dependency x strict/lenient save policy x end-of-run mismatch variants, driving the real Plugin.iter of a recorder plugin and checking every recorded do_compute call (identical interval for all inputs, row-aligned merge of same-kind inputs, adjacency, each row exactly once in order, error instead of silent drop).",
    "small-scope hypothesis (<=3 rows per kind, 5-point grid); dependencies start together; 4 dependencies not enumerated",
    "bounded exhaustive enumeration of inputs on the implementation with a call-recording oracle", "graphs")
add("C09", "exploration",
    "Exhaustive enumeration of every disjoint row set (<=3-4 rows, rows longer than the window included) x every law-abiding chunking x every window (l,r) in {0..3}^2 x {per-row, per-group} window-local computations x {single, multi-output} OverlapWindowPlugins through Context.get_iter; oracle: one computation over the whole run; contiguity; a strict consumer of both outputs of the multi-output variant checks mutual alignment.",
    "small-scope hypothesis; window-local computations by construction; single-thread processor (the plugin logic is processor independent)",
    "bounded exhaustive enumeration of inputs on the implementation vs whole-run reference", "graphs")
add("C10", "exploration",
    "Exhaustive enumeration of every time range with endpoints on the half-step grid around a stored run (on / just inside / just outside every row and chunk boundary, and outside the run) x {time_range, seconds_range, time_within} x {fully_contained, touching} x three on-disk layouts (as produced, 1-row chunks, one chunk), with row selections (string, list, callable), kept / dropped columns, single and merged same-kind targets and both processors rotating (quick) or in full product (thorough); oracle: predicate and projection applied to the whole-run result, explicit error for ranges overlapping no chunk, directory listing unchanged.",
    "one 6-row run; time unit chosen so seconds_range values are exact; threaded runs under the fixed default schedule of the controlled scheduler",
    "bounded exhaustive enumeration of inputs x configurations on the implementation vs filtered whole-run reference", "graphs")
add("C11", "exploration",
    "Exhaustive enumeration over a 5-type graph with a two-kind multi-output plugin of 24 per-output save-policy assignments x all 32 pre-stored subsets x all targets x save= choices, with request modifiers (time_range, selection, keep_columns, fuzzy_for, allow_incomplete), forbid_creation_of settings and storage-frontend layouts (rw, ro+rw, take_only/exclude) rotating (quick) or in full product (thorough); oracle: an independently written reference planner predicts which plugins run (checked against compute counters), that each running plugin sees every input row once, exactly which directories are created in which frontend, and when DataNotAvailable must be raised.",
    "one graph shape; rows 4, chunks 2; threaded runs under the fixed default schedule",
    "bounded exhaustive enumeration of configurations on the implementation vs an independent reference planner", "graphs")
add("C12", "exploration",
    "Exhaustive enumeration of (violation kind x plugin kind x offending chunk position x processor x target) with the violation injected by tampering with the return value of an otherwise correct harness plugin (wrong dtype bare / inside a Chunk, rows before / after the chunk range, foreign data-type label, overlapping or gapped target chunks, non-dict from a multi-output plugin); oracle: Context.get_array raises and a fresh Context reports the offending data type and all its descendants as not stored; threaded cells additionally explored over schedules with <=1 delay.",
    "violations are injected at the plugin's compute boundary; chunks of 1-2 rows; schedule exploration to delay bound 1 (quick: a rotating 1/12 slice of the threaded cells, thorough: all)",
    "bounded exhaustive enumeration of fault kinds x positions x configurations on the implementation (+ delay-bounded schedule exploration)", "graphs")
add("C13", "model_checking",
    "Stateless model checking of the real threaded processor with a consumer that stops pulling after k chunks: every schedule with up to B delays runs until quiescence (no enabled thread); the number of source chunks produced at rest must be the same set for runs of N and 2N chunks (N above the buffer ceiling) and below k + stages x (2 x capacity + 2); in every state no eager mailbox exceeds its intended capacity (the context option, or the own max_messages of the plugin that feeds it - 16 cells have one plugin declaring its own, larger buffer); a monitor on Mailbox._can_fetch checks at every sender gate decision that a driving subscriber waits for a message that is not in the mailbox. The bare lazy mailbox is additionally explored over its FULL reachable state space with the same monitor.",
    "delay bound 1 (2 for chain2) for the processor layer; full state space only for the bare mailbox (<=3-4 messages, <=3 subscribers); worker pools not covered (they disable lazy mode)",
    "delay-bounded exhaustive exploration of thread interleavings to quiescence + explicit-state exploration of the bare mailbox", "vsched")
add("C14", "exploration",
    "Exhaustive enumeration of 1-3 subruns drawn from a menu of chunk layouts (rows at chunk edges, empty subruns, zero-duration chunks, time gaps between subruns) x superrun-capable level at depth 1 or 2 x write_superruns x rechunk targets x processors x redefinition histories through the real define_run / get_iter / storage path; oracle: rows == ordered concatenation of the subruns' rows (on the fly and re-read), per-chunk subrun bookkeeping (listed runs, spans inside the run and inside the chunk, adjacency, metadata == re-read chunk), stored data unavailable after redefinition.",
    "<=3 subruns, <=3 chunks each; rotating write/rechunk/processor choices in quick",
    "bounded exhaustive enumeration of configurations on the implementation vs per-subrun reference", "graphs")
add("C15", "model_checking",
    "Preemption-bounded model checking of multi-run get_array / make with two worker threads sharing one Context: the pool primitives are scheduler-controlled and every source line of strax/context.py that touches the plugin registry or the plugin / level / run-default caches is a scheduling point (sys.settrace line events), so every interleaving of those accesses with at most B preemptions is executed; oracle: result == ordered concatenation of sequential per-run results with the run id, failing runs raise or are omitted, no crash, no deadlock, no temporary plugin left registered.",
    "atomicity between selected lines (confirmed by an all-lines exploration at lower bound); per-run processing single-threaded inside each worker; 2-3 runs, 2 workers",
    "preemption-bounded exhaustive exploration of thread interleavings at source-line granularity (controlled scheduler + line tracing)", "vsched")
add("C16", "exploration",
    "Exhaustive enumeration of stored layouts (every disjoint row set <=3 rows x every law-abiding chunking) x copy_to_frontend, stand-alone rechunker (serial / thread / in-process 'process' mode, replace, new destination), rechunk-on-load with and without executor, and per-chunk make for every grouping of the dependency's chunks followed by merge_per_chunk_storage; oracle: identical rows, same overall range and tiling, destination metadata consistent with files, source byte-identical unless replaced.",
    "<=3 rows, 6-point grid; real OS processes not used; parameter rotation in quick",
    "bounded exhaustive enumeration of inputs x configurations on the implementation vs source data", "smallscope")
add("C17", "exploration",
    "Exhaustive enumeration of all configurations of <=4 things x <=3 containers on a 7-point grid (both encodings, windows -2..3) against direct quadratic evaluations of the docstring definitions, under the documented preconditions; unsorted inputs must be rejected; all unsorted (time,channel) arrays of <=4 rows for stable sorting.",
    "small-scope hypothesis; zero-length intervals and the 'randomly for larger arrays' clause are outside",
    "bounded exhaustive enumeration of inputs vs quadratic reference", "smallscope")

add("C18", "exploration",
    "Exhaustive enumeration of every integer waveform over {0..3} of length <=7-8 in 1-3 fragments and 1-2 channels x scalar / per-channel / noise-scaled thresholds x baseline fractions against a definitional hit finder (all hit fields), every (left,right) extension for cut_outside_hits against 'keep exactly the samples within the extensions, continuing into the linked neighbour fragment, metadata untouched', all short record sequences for record_links, all short raw waveforms for baseline / integrate / zero_out_of_bounds.",
    "amplitude alphabet {0..3}; batches of pulses per call; cut_baseline excluded (does not compile with the installed numba)",
    "bounded exhaustive enumeration of inputs vs definitional reference", "smallscope")
add("C19", "exploration",
    "Exhaustive enumeration of every hit set of <=4-5 hits on a small grid x channel assignments x gap thresholds x extensions x max_duration x cuts against the gap-clustering definition (required / forbidden / free split decisions, spans, areas, disjointness); all pairs of binary 6-sample waveforms on 2 channels through find_hits -> find_peaks -> sum_waveform with forced down-sampling (area conservation per channel, integral), merge_peaks over every consecutive range, replace_merged, local-minimum split_peaks tiling; symmetric_moving_average, index_of_fraction, compute_center_time, compute_widths vs their formulas on every waveform <=6-7 samples.",
    "small scope (<=5 hits, 2 channels); float tolerance 1e-5; highest_density_region and natural-breaks splitting not covered",
    "bounded exhaustive enumeration of inputs vs definitional reference", "smallscope")

import importlib.util
extra = os.path.join(V, "tools", "manifest_extra.py")
if os.path.exists(extra):
    spec = importlib.util.spec_from_file_location("manifest_extra", extra); m = importlib.util.module_from_spec(spec); spec.loader.exec_module(m); m.register(add)

NA = {}
engines = {}
for pid, c in T.items():
    engines.setdefault(c["engine"], []).append(pid)
ENG = dict(
    smallscope=("vlib/smallscope.py", "exhaustive small-scope input generators + fork-pool runner (vlib/runner.py)"),
    vsched=("vlib/vsched.py", "controlled scheduler for real threads (drop-in threading/futures namespaces) + stateless DFS explorer with canonical-state pruning (vlib/explore.py, vlib/canon.py)"),
    fsfault=("vlib/fsfault.py", "file-system operation interposer enumerating every fault / crash point of a write history"),
    histbfs=("vlib/checks/c02.py", "breadth-first search over API operation histories with canonical-state dedup"),
    graphs=("vlib/graphs.py", "harness plugin-graph catalogue with whole-run reference evaluation"),
)
man = dict(version=1, setup_cmd="./vcheck setup",
    hooks=dict(guard="STRAX_VERIF", enable="no source hooks are needed: harnesses interpose by assigning module attributes of the imported strax (editable install of /repo) at run time; ./vcheck exports STRAX_VERIF=1 for uniformity",
               baseline_off_cmd="cd /repo && /venv/bin/python -m pytest -ra -q -p no:cacheprovider --timeout=900 --continue-on-collection-errors", source_commits=[], add_only=True),
    engines=[dict(name=k, path=ENG[k][0], serves_properties=sorted(v), kind_free_text=ENG[k][1]) for k, v in sorted(engines.items())],
    checks=[T[p] for p in ALL if p in T],
    not_applicable=[dict(property_id=p, reason=NA.get(p, "check not built yet (work in progress; DESIGN.md build order)")) for p in ALL if p not in T],
    notes="All checks run the real strax code imported from /repo's working tree; see DESIGN.md. known_findings.json lists recorded/fixed defects.")
json.dump(man, open(os.path.join(V, "MANIFEST.json"), "w"), indent=1)
import sys; sys.path.insert(0, V)
from vlib import schema
err = schema.validate(man, "/root/.vp/MANIFEST.schema.json"); assert not err, err
print("MANIFEST.json:", len(man["checks"]), "checks;", len(man["not_applicable"]), "not applicable")
