#!/bin/bash
# usage: mut.sh <file-in-repo> <sed-expr> <check ids...>   -- apply a sed mutation to /repo, run quick checks, revert
f=$1; e=$2; shift 2
cd /repo && git diff --quiet || { echo "repo dirty"; exit 9; }
sed -i "$e" "$f"
if git diff --quiet; then echo "MUTATION DID NOT APPLY"; exit 8; fi
git diff | grep '^[-+]' | grep -v '^+++\|^---'
cd /verif; export VERIF_EVIDENCE_DIR=/tmp/seeded_evidence
for c in "$@"; do ./vcheck $c --tier quick 2>&1 | grep -E "^VIOLATION|^\[C|HARNESS|KNOWN" | head -8; done
git -C /repo checkout -- . 
