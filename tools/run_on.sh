#!/bin/bash
# usage: run_on.sh <patch.diff|-> <tag> <check ids...>
# Runs quick (or $TIER) checks against a SCRATCH worktree of /repo HEAD with the patch applied, so that several
# seeded changes can be tried in parallel without touching /repo.  Never evidence: VERIF_EVIDENCE_DIR is redirected.
p=$1; tag=$2; shift 2
wt=/tmp/runon_$tag
git -C /repo worktree remove --force $wt >/dev/null 2>&1
git -C /repo worktree add -q --detach $wt HEAD || exit 9
if [ "$p" != "-" ]; then git -C $wt apply "$p" || { echo "PATCH DOES NOT APPLY: $p"; git -C /repo worktree remove --force $wt; exit 8; }; fi
cd /verif
export VERIF_REPO=$wt PYTHONPATH=$wt VERIF_EVIDENCE_DIR=/tmp/seeded_evidence_$tag VERIF_SCRATCH=/dev/shm/strax_verif_runon_$tag VERIF_REPLAY_DIR=/tmp/runon_replays_$tag
for c in "$@"; do
  /usr/bin/time -f "[$c wall %es]" ./vcheck $c --tier ${TIER:-quick} 2>&1 | grep -E "^VIOLATION|^\[C|HARNESS|^KNOWN|fingerprint|wall" | cut -c1-260 | head -${LINES_MAX:-8}
done
git -C /repo worktree remove --force $wt
rm -rf /tmp/seeded_evidence_$tag /dev/shm/strax_verif_runon_$tag
